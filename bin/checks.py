"""Per-property configuration of the driver (tests, case counts, rules)."""

CHECKS = {
    "C07": dict(
        level="exploration",
        rule=("Inputs: rendered syntactically valid journals with layout noise (tabs, CRLF, trailing blanks, comment lines, "
              "annotation order, multi-line assertions, missing final newline), the same with 1-3 byte-level edits, "
              "grammar-token soup, and arbitrary bytes. Oracle: in-process parser under recover+watchdog; tree invariants "
              "(ranges, nesting, order, gaps, element shapes, exact cover) or positioned renderable error. "
              "Non-trivial: parses with >=1 directive, or fails after >=1 complete directive; distinct by input bytes."),
        assumptions=["library-level: parser.New(text).Advance(); ParseFile() is the entry every command uses (syntax.ParseFile / parseRec)"],
        quick=dict(tests=[dict(name="TestC07", cases=480000)]),
        thorough=dict(tests=[dict(name="TestC07", cases=6000000)],
                      fuzz=[dict(name="FuzzC07", seconds=90, seed_corpus=True), dict(name="FuzzC07", seconds=60, seed_corpus=False)]),
    ),
    "C11": dict(
        level="exploration",
        rule=("Inputs: (start, end, interval, last) biased to month/quarter/year ends, leap days, week boundaries, start>end, 1900-2100; "
              "thorough adds a bounded exhaustive sweep (every start 2019-12-20..2021-03-10 x length -3..430 x 6 intervals x last in {0,1,2,5}). "
              "Oracle: own civil calendar (no time.AddDate): invariants stated in the property checked directly on date.NewPartition's output "
              "(consecutive, disjoint, covering, never straddling a unit, adjacent periods in different units, exact --last count), equality with the "
              "reference partition, and Align(d) for every d in [start-40,end+40]; CLI: column headers of `knut balance` for drawn --from/--to/interval/--last. "
              "Non-trivial: window crosses a unit boundary with a clipped first or last period, contains Feb 29, or start>end (library); "
              ">=2 periods with a window flag or --last (CLI)."),
        assumptions=["negative --last values are outside the statement and not generated", "dates 1900-2100"],
        quick=dict(tests=[dict(name="TestC11", cases=160000), dict(name="TestC11CLI", cases=1600)]),
        thorough=dict(tests=[dict(name="TestC11", cases=1600000), dict(name="TestC11CLI", cases=16000),
                             dict(name="TestSweepC11", cases=1, env=dict(VERIF_SWEEP=1))]),
    ),
}
