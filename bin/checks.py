"""Per-property configuration of the driver (tests, case counts, rules)."""

CHECKS = {
    "C07": dict(
        level="exploration",
        rule=("Inputs: rendered syntactically valid journals with layout noise (tabs, CRLF, trailing blanks, comment lines, "
              "annotation order, multi-line assertions, missing final newline), the same with 1-3 byte-level edits, "
              "grammar-token soup, and arbitrary bytes. Oracle: in-process parser under recover+watchdog; tree invariants "
              "(ranges, nesting, order, gaps, element shapes, exact cover) or positioned renderable error. "
              "Non-trivial: parses with >=1 directive, or fails after >=1 complete directive; distinct by input bytes."),
        assumptions=["library-level: parser.New(text).Advance(); ParseFile() is the entry every command uses (syntax.ParseFile / parseRec)"],
        quick=dict(tests=[dict(name="TestC07", cases=480000)]),
        thorough=dict(tests=[dict(name="TestC07", cases=6000000)],
                      fuzz=[dict(name="FuzzC07", seconds=90, seed_corpus=True), dict(name="FuzzC07", seconds=60, seed_corpus=False)]),
    ),
    "C11": dict(
        level="exploration",
        rule=("Inputs: (start, end, interval, last) biased to month/quarter/year ends, leap days, week boundaries, start>end, 1900-2100; "
              "thorough adds a bounded exhaustive sweep (every start 2019-12-20..2021-03-10 x length -3..430 x 6 intervals x last in {0,1,2,5}). "
              "Oracle: own civil calendar (no time.AddDate): invariants stated in the property checked directly on date.NewPartition's output "
              "(consecutive, disjoint, covering, never straddling a unit, adjacent periods in different units, exact --last count), equality with the "
              "reference partition, and Align(d) for every d in [start-40,end+40]; CLI: column headers of `knut balance` for drawn --from/--to/interval/--last. "
              "Non-trivial: window crosses a unit boundary with a clipped first or last period, contains Feb 29, or start>end (library); "
              ">=2 periods with a window flag or --last (CLI)."),
        assumptions=["negative --last values are outside the statement and not generated", "dates 1900-2100"],
        quick=dict(tests=[dict(name="TestC11", cases=320000), dict(name="TestC11CLI", cases=4800)]),
        thorough=dict(tests=[dict(name="TestC11", cases=3200000), dict(name="TestC11CLI", cases=64000),
                             dict(name="TestSweepC11", cases=1, env=dict(VERIF_SWEEP=1))]),
    ),
    "C04": dict(
        level="exploration",
        rule=("Inputs: journals built by a history generator (open/book/assert/close/settle/price/accrual actions on a forward clock, valid by construction) "
              "followed by 0-2 drawn damages (drop/duplicate/extra open, extra booking, extra close, assertion off by epsilon, extra assertion incl. zero on "
              "never-held commodities and non-A/L accounts, shift a directive by one day, drop a close) and optional shuffling of the file order and noisy layout. "
              "Oracle: independent lifecycle model (statement of C04, exact rationals, own accrual expansion) vs exit status of knut check / print / balance; "
              "rejected: stderr non-empty, stdout empty, and for single-damage cases stderr contains the date and account of the first offending directive. "
              "Non-trivial: the verdict involves same-day open/use/assert/close of one account, or exactly one damage led to rejection; distinct by journal text."),
        assumptions=["within one file, arrival order is file order", "accrual split rule as documented (x/n truncated at one decimal, remainder first)"],
        quick=dict(tests=[dict(name="TestC04", cases=16000)]),
        thorough=dict(tests=[dict(name="TestC04", cases=320000)]),
    ),
    "C10": dict(
        level="exploration",
        rule=("Inputs: transactions with 1-5 bookings over all five account types (incl. equity and the accrual account itself), quantities with up to 12 decimals, "
              "negative and zero amounts, @accrue with every interval (the four the parser accepts through parsed text; once/yearly through hand-built syntax nodes), "
              "windows with start<=end placed independently of the transaction date. Oracle (library: transaction.Create; CLI: knut print read by the harness's own reader): "
              "every generated transaction balances per commodity; per (account != accrual account, commodity) the total equals the original; the accrual account nets to zero; "
              "income/expense legs appear once per period of the reference partition dated at the period ends, all other legs on the original date. "
              "Non-trivial: >=2 periods and (amount not divisible at one decimal, negative amount, >=2 bookings, or an equity leg); distinct by transaction."),
        assumptions=["equal-sized parts are not asserted (not promised by the statement)", "windows with start>end are outside the property (C14 covers the crash)"],
        quick=dict(tests=[dict(name="TestC10", cases=320000), dict(name="TestC10CLI", cases=4800)]),
        thorough=dict(tests=[dict(name="TestC10", cases=9600000), dict(name="TestC10CLI", cases=160000)]),
    ),
    "C01": dict(
        level="exploration",
        rule=("Inputs: accepted journals from the history generator (several commodities, negative/zero amounts, accruals, closes, assertions, @performance, "
              "optionally shuffled) with a price forest declared on the first day (so every commodity has a price in every other), x drawn flags: "
              "--from/--to (absent/inside/outside/period boundary), interval, --last, --diff, --close=false, -v V for a drawn commodity (with/without -s), -a, "
              "-m level>=1[:suffix],regex lists, --remap; exact output only (--csv or --digits 9). Excluded as the statement says: --account, --commodity, -m 0. "
              "Oracle: invariant over the report - every Delta cell is zero and Total (A+L) equals the displayed Total (E+I+E) per commodity and column. "
              "Non-trivial: >=2 transactions, a non-zero total cell, and (valued or >=2 commodities or >=2 columns); distinct by (journal text, flags)."),
        assumptions=["a non-zero exit of knut makes the case vacuous for C01 (label knut-rejected in the histogram; C04/C03 decide those)"],
        quick=dict(tests=[dict(name="TestC01", cases=24000)]),
        thorough=dict(tests=[dict(name="TestC01", cases=480000)]),
    ),
    "C02": dict(
        level="exploration",
        rule=("Inputs: accepted journals from the history generator (accruals, closes, negative/zero amounts, Unicode names, shuffled order) x drawn flags: "
              "--from/--to, interval, --last, --diff, --close=false, --account/--commodity regexes built from the journal's names, -m level[:suffix],regex lists "
              "(incl. level 0, suffix>0, non-matching rules), --remap; text renderer at --digits 9 (exact for <=8 decimals), tree read from indentation. "
              "Oracle: reference ledger (DESIGN App. B.4: window, partition, period closing of income/expense accounts into Equity:Equity at each shown period start, "
              "filters on each posting half, remap/shorten, cumulative or per-period cells, totals, Delta) - compared are column headers, every cell (missing line = 0), "
              "the set of account rows (booked accounts plus ancestors), totals and Delta. Row order is not compared (C06). Where --remap and -m are both given and the two "
              "application orders differ, either is accepted. Non-trivial: >=3 in-window bookings, >=2 non-zero cells and a mapping/remap/filter/diff/last or closing over >=2 columns."),
        assumptions=["accrual split rule as documented", "knut's regexp engine (Go regexp) is also used by the reference for flag regexes"],
        quick=dict(tests=[dict(name="TestC02", cases=24000)]),
        thorough=dict(tests=[dict(name="TestC02", cases=480000)]),
    ),
    "C12": dict(
        level="exploration",
        rule=("Inputs: sequences of 0-10 price declarations over 2-7 commodities (general graphs: chains, stars, cycles, disconnected parts; both directions; "
              "redeclarations over time incl. direction flips; self pairs; zero prices; prices 1e-8..1e6 with <=8 decimals incl. one whose reciprocal sits on a "
              "16-digit rounding boundary), a drawn valuation commodity V, declaration order in the file independent of the order of effect. "
              "Oracle: own price graph in exact rationals (latest declaration per pair, reciprocal and product truncated at 8 decimals per step, every simple chain from V enumerated). "
              "Library: after every Insert, Normalize(V) 8 times, each result judged per commodity (V=1; directly declared pair = latest declaration or its truncated reciprocal, strictly; "
              "otherwise equal to the product along SOME simple chain; unconnected = Price and Valuate return an error; zero price = Insert errors and leaves Prices unchanged; "
              "Valuate(c,x)=trunc8(x*price)), and the 8 results identical. CLI: one unit of each commodity in its own account, `knut balance -v V --color=false --digits 8`, "
              "cell = price by the same rules; unconnected held commodity or zero price = exit non-zero, stderr non-empty, stdout empty. "
              "Non-trivial: V's component has a commodity reached only by a chain of length >=2, a reciprocal, a redeclared pair, or alternative chains; distinct by case."),
        assumptions=["prices are declared with at most 8 decimals and are positive (the statement does not say what a longer or negative price means)",
                     "CLI: declarations of one journal get pairwise different dates (same-day order is not part of the statement)",
                     "the reciprocal may be either neighbouring 8-decimal value when the exact quotient lies within 1e-16 below a boundary"],
        quick=dict(tests=[dict(name="TestC12", cases=60000), dict(name="TestC12CLI", cases=6400)]),
        thorough=dict(tests=[dict(name="TestC12", cases=6000000), dict(name="TestC12CLI", cases=100000)]),
    ),
    "C03": dict(
        level="exploration",
        rule=("Inputs: accepted journals from the history generator with asset and liability positions in several commodities, a price forest over the commodities "
              "(direct, inverse and chained declarations; redeclared over time; declared on the first day, or - in a quarter of the cases - late or never for some edge), "
              "a drawn valuation commodity, windows, intervals, --last, --close on/off, with and without per-commodity detail (-s). "
              "Oracle: `knut balance -v V --color=false --digits 8` read by indentation vs the report pipeline run on IDEAL values: every booking half valued quantity x price(booking day), "
              "every price change revaluing every open A/L position onto Income:<mirror path> without truncating the individual values (prices themselves follow the chain "
              "truncation of C12), so an A/L cell is exactly sum(quantity x latest price) and the mirror income row its accumulated gain; tolerance per cell = (number of value "
              "entries of the account + 1) x 1e-8 (one unit of the 8th decimal per arithmetic step, as the statement allows). With history before --from only changes against the first column are compared. "
              "A price missing for a booking inside the window must give exit!=0, stderr, empty stdout; all prices present must give a report. "
              "Non-trivial: a non-V A/L position is held across a price change inside the window and (chain or inverse price, a liability, or >=2 columns); or a missing price in the window."),
        assumptions=["forest price graphs only (unique chain)", "a reciprocal within 1e-16 below an 8-decimal boundary is not generated (probability ~1e-8 per price)"],
        quick=dict(tests=[dict(name="TestC03", cases=19200)]),
        thorough=dict(tests=[dict(name="TestC03", cases=480000)]),
    ),
    "C08": dict(
        level="exploration",
        rule=("Inputs: syntactically valid journals (all directive kinds, both annotations, Unicode names, multi-line descriptions, includes) rendered in noisy "
              "layouts (tabs, CRLF, trailing blanks, comment lines, annotation order, single/multi-line assertions, missing final newline), and 1-3 byte-level edits "
              "of those (mostly unparseable; the ones that still parse are kept as odd layouts). Oracle, library (parser + syntax.FormatFile): output parses; same "
              "directive sequence with identical texts of dates, accounts, amounts, commodities, description, accrual interval/start/end/account, performance targets, "
              "include path, number and order of bookings/balances (own walker over both trees); gaps as delimited by the parser byte-identical on both sides; every "
              "comment line of the original is a line of the output in the same order; format(format(x)) == format(x). Oracle, CLI (knut format FILE...; 1-3 files, "
              "sub-directories, non-ASCII names, repeated argument, an included file that is not named): all parse -> exit 0 and every file equals the library result; "
              "some file does not parse -> exit != 0, stderr non-empty, that file byte-identical, parseable siblings either formatted or untouched; files not named stay byte-identical. "
              "Non-trivial: >=2 directives and formatting changed >=1 byte; or (CLI) an unparseable named file; distinct by file bytes + argv."),
        assumptions=["knut's parser reads both sides (trusted via C07)",
                     "alignment, trailing blanks, line-ending style and annotation-line order inside a directive are layout and not compared",
                     "a directive's terminating newline belongs to the directive where the parser says so (transactions, multi-line assertions)"],
        quick=dict(tests=[dict(name="TestC08", cases=96000), dict(name="TestC08CLI", cases=2400)]),
        thorough=dict(tests=[dict(name="TestC08", cases=1600000), dict(name="TestC08CLI", cases=40000)],
                      fuzz=[dict(name="FuzzC08", seconds=90, seed_corpus=True)]),
    ),
    "C06": dict(
        level="exploration",
        rule=("Inputs: accepted journals (sibling accounts of equal sort weight, same-day same-kind directives, @performance targets, accruals) plus extra price "
              "declarations between arbitrary commodity pairs (alternative paths, cycles), shuffled and dealt over an include tree of 1-6 files, x one command with drawn "
              "flags: balance (all flag families, valued and unvalued), register (all flag families), print, check --write, transcode, portfolio weights, portfolio returns. "
              "Oracle: the same argv is run K times (6 quick, 24 thorough) on the verif build with different KNUT_VERIF_SCHED perturbation seeds and GOMAXPROCS in {1,2,16,4,3,8}; "
              "exit status and stdout bytes must be equal in all runs (Go randomises map iteration per process, so repetition samples map orders; the hook shakes goroutine "
              "arrival order). TestC06Prices runs the valued commands (balance -v, register -v, transcode, portfolio weights) on journals of the C12 price-graph generator (equal-length alternative paths, cycles, redeclarations, one unit of every commodity held). TestC06Portfolio repeats `portfolio weights` (text/CSV, by weight or -a, --digits up to 16) and `portfolio returns` on the cases of the C20 generator with their own universe file, -m rule, filters and windows (zero totals with Inf/NaN shares included). TestC06Infer repeats `knut infer` on training/target pairs of the C15 generator (ties between candidates included), TestC06Import repeats `knut import <format>` on statements of the eleven C13 generators (several currencies on one day included); C13 and C15 also compare repeated runs. Non-trivial: the input contains >=1 tie/alternative (sibling accounts, same-day "
              "same-kind directives, several files, alternative price paths, performance targets); distinct by (files, argv)."),
        assumptions=["detection of an order dependence with per-run probability p is 1-(1-p)^(K-1) per input; the schedule is perturbed, not controlled"],
        quick=dict(tests=[dict(name="TestC06", cases=3200), dict(name="TestC06Prices", cases=1600), dict(name="TestC06Portfolio", cases=1600), dict(name="TestC06Infer", cases=640), dict(name="TestC06Import", cases=960)]),
        thorough=dict(tests=[dict(name="TestC06", cases=16000), dict(name="TestC06Prices", cases=16000), dict(name="TestC06Portfolio", cases=16000), dict(name="TestC06Infer", cases=4800), dict(name="TestC06Import", cases=8000)]),
    ),
    "C05": dict(
        level="exploration",
        rule=("Inputs: a journal from the history generator (accepted, or rejected after 1-2 damages; never two prices for one pair on one day) as a single file, and a "
              "variant of it: directives permuted and/or dealt over an include tree of 1-7 files (depth<=4, nested directories, ../ paths), run on the verif build with a drawn "
              "schedule perturbation seed and GOMAXPROCS in {1,2,16}. Oracle (metamorphic): check, print and 1-3 balance invocations with drawn flags (all families, valued when prices exist) "
              "have the same accept/reject verdict on both; balance stdout is byte-identical; print stdout, read by the harness's own reader, is in (date, kind) order on both sides and "
              "equal as a multiset per (date, kind) group. Non-trivial: the variant moves >=2 directives to a position with another date or kind, or uses >=3 files with nesting depth >=2."),
        assumptions=["which diagnostic a rejected journal gets is not compared (only that both are rejected)"],
        quick=dict(tests=[dict(name="TestC05", cases=4000)]),
        thorough=dict(tests=[dict(name="TestC05", cases=32000)]),
    ),
    "C09": dict(
        level="exploration",
        rule=("Inputs: accepted journals from the history generator with negative and zero amounts, non-canonical numbers (trailing/leading zeros), accruals, @performance "
              "(incl. empty target list), multi-balance assertions and several assertions per day, Unicode names, multi-line descriptions, price forests; optionally shuffled. "
              "Oracle (round trip): P1 = knut print J exits 0; knut check P1 exits 0; knut print P1 == P1 byte for byte; for 1-3 drawn balance flag sets (all families, valued "
              "when prices exist) knut balance J == knut balance P1 byte for byte (and same exit status). Non-trivial: J has >=1 special feature and P1 != J; distinct by (journal, flags)."),
        assumptions=["balance output is deterministic (C06)"],
        quick=dict(tests=[dict(name="TestC09", cases=4800)]),
        thorough=dict(tests=[dict(name="TestC09", cases=128000)]),
    ),
    "C17": dict(
        level="exploration",
        rule=("Inputs (library): tables built through lib/common/table's public API (column groups incl. the balance shapes 1+1+n and 1+n, separator/blank/short rows "
              "completed with FillEmpty, left/right/centre and indented text incl. multi-byte, combining and 4-byte runes, commas and quotes) with amounts over "
              "sign x 1e-8..1e15 x rounding boundaries of the displayed value (x.5, x.49, x.51, 999.5, 999999.5, carries into a new thousands group, values rounding to zero) "
              "x up to 18 decimals x four coefficient/exponent representations, Round 0..8, Thousands on/off. Inputs (CLI): accepted journals of the history generator "
              "(<=30 actions, <=8 decimals, unicode names) plus 0-4 own bookings with amounts on the rounding boundaries of the drawn flags x --digits absent/0..8 x -k x -a x --diff x interval flags. "
              "Oracle: every line has the same rune width and its column separators ('+' in separator lines, '|' elsewhere) sit at the same rune offsets; each numeric text cell "
              "equals the independent formatter (exact big.Rat round-half-away of amount or amount/1000, exactly n decimals, groups of three from the decimal point, minus sign), "
              "zero amounts blank, non-zero amounts rounding to zero must show 0.00 (or -0.00 if negative), not blank; CSV fields are plain decimals equal to the exact amount, text and "
              "empty cells verbatim, same (row, column) once blank and separator rows are dropped. CLI: text cells = reference rounding of the CSV cells at the same position, "
              "labels and header equal. Non-trivial: >=2 numeric columns of different natural width and a value that is grouped or sits exactly on a rounding boundary."),
        assumptions=["width is counted in runes (not terminal cells), as the property's anchors state"],
        quick=dict(tests=[dict(name="TestC17", cases=48000), dict(name="TestC17CLI", cases=2400)]),
        thorough=dict(tests=[dict(name="TestC17", cases=4000000), dict(name="TestC17CLI", cases=100000)]),
    ),
    "C13": dict(
        level="exploration",
        rule=("Inputs (part A: ch.cumulus, ch.postfinance, ch.supercard, ch.swisscard, ch.swisscard2, ch.viac): well-formed statements in each importer's own file format "
              "(0-8 booking rows drawn chronologically, laid out newest- or oldest-first; charges and credits; amounts 0.00-999'999'999.99 with the format's thousands separator and "
              "sign/column convention; foreign-currency rows (cumulus continuation line, supercard/swisscard2 FX columns); the format's noise lines: column headers, page headers, "
              "carried-forward balance, payment section, totals, key/value header, disclaimer, BOM, ISO-8859-1, CRLF, missing final newline; free-text fields from a hostile alphabet: "
              "quotes, separators, tab, @ # * % \\ //, leading/trailing/double blanks, NBSP, Latin-1/CJK/emoji, empty; viac: JSON dailyWealth with zero values, up to 20 decimals, exact "
              "rounding ties, extra keys, --from). Oracle: the real binary `knut import <x> --account Assets:Import FILE` must exit 0 with empty stderr; stdout T is read by the harness's own "
              "reader; opens+T must pass `knut check`; `knut print` of opens+T must end with T byte for byte after a block of exactly those opens; the multiset of (date, commodity, effect on "
              "the import account) over the transactions of T equals the multiset of booking rows under the importer's documented sign convention (golden file + column names), transaction "
              "count = booking-row count, no other directive kinds; viac: only prices, one per non-zero value on/after --from, equal to the value at two decimals (either neighbour at an exact tie). "
              "Description text is not compared. Non-trivial: >=2 booking rows with both signs and >=1 of {thousands separator, hostile character in a description field, FX/continuation row}; "
              "viac: >=2 carried values and >=1 of {zero value skipped, value needing rounding, --from}. Labels importer:<name> and <name>:<feature> show per-importer coverage. "
              "PART B (revolut, revolut2, com.wise, ch.swissquote, us.interactivebrokers). Inputs: per importer a chronological row model from a zero opening balance, laid out in the importer's "
              "statement format (balance columns, per-(date,currency) balances, period-end positions and forex balances computed from the rows; amounts with the format's separators and signs; "
              "header/total/sub-total/execution/lot lines, pending and CANCELLED rows as noise; free text from ' \" ; , tab newline @ # * % \\ // blanks Unicode empty and journal keywords). Oracle: real binary exits 0 "
              "with empty stderr; a second import is byte-identical (8 re-imports when a date carries several currencies); the harness's own reader parses the output; multiset of (date, per-commodity effect on the import account) per transaction "
              "equals the booking rows' signed amounts (FX / forex pair / cross-currency rows with the documented pairing), transaction count included; emitted assertions equal the balances the statement carries and "
              "nothing else is emitted; opens + output is accepted by knut check (carried assertions included) and reproduced byte for byte by knut print. Non-trivial: >=2 booking rows with both signs and >=1 of "
              "thousands separator, hostile character, FX/fee/forex-pair row, carried assertion; distinct by statement text."),
        assumptions=["expected effects encode each importer's documented sign convention (golden file and column names), not an invented one",
                     "characters that need it are carried in CSV fields by RFC-4180 quoting (doubled quotes); newlines inside fields are not generated",
                     "swisscard2 credit rows carry a negative Betrag (the golden file has charges only)",
                     "cumulus payment-section texts never look like a date (the importer recognises booking rows by two date-like leading fields)"],
        quick=dict(tests=[dict(name="TestC13A_Cumulus", cases=400, shards=2), dict(name="TestC13A_Postfinance", cases=400, shards=2), dict(name="TestC13A_Supercard", cases=400, shards=2),
                          dict(name="TestC13A_Swisscard", cases=400, shards=2), dict(name="TestC13A_Swisscard2", cases=400, shards=2), dict(name="TestC13A_Viac", cases=400, shards=2),
                          dict(name="TestC13B_Revolut", cases=640, shards=2), dict(name="TestC13B_Revolut2", cases=640, shards=2), dict(name="TestC13B_Wise", cases=640, shards=2),
                          dict(name="TestC13B_Swissquote", cases=640, shards=2), dict(name="TestC13B_InteractiveBrokers", cases=640, shards=2)]),
        thorough=dict(tests=[dict(name="TestC13A_Cumulus", cases=12800, shards=8), dict(name="TestC13A_Postfinance", cases=12800, shards=8), dict(name="TestC13A_Supercard", cases=12800, shards=8),
                             dict(name="TestC13A_Swisscard", cases=12800, shards=8), dict(name="TestC13A_Swisscard2", cases=12800, shards=8), dict(name="TestC13A_Viac", cases=12800, shards=8),
                             dict(name="TestC13B_Revolut", cases=19200, shards=8), dict(name="TestC13B_Revolut2", cases=19200, shards=8), dict(name="TestC13B_Wise", cases=19200, shards=8),
                             dict(name="TestC13B_Swissquote", cases=19200, shards=8), dict(name="TestC13B_InteractiveBrokers", cases=19200, shards=8)]),
    ),
    "C16": dict(
        level="exploration",
        rule=("Inputs: accepted journals from the history generator (closes, re-opens, accruals, liabilities, several commodities) with a price forest declared on the first day, "
              "x a drawn valuation commodity; half of the journals open the Income:<path> valuation mirror accounts themselves (searching behind known finding KF-C16-1). "
              "Oracle: `knut transcode -v V` read by the harness's own beancount reader: operating currency; entries in non-decreasing date order; sequential lifecycle scan (open before use, "
              "no use after close, no double open); every transaction's postings sum to exactly 0 in V; and the multiset of transactions keyed by (date, account set) with amounts within 2e-8 "
              "equals the reference valued-transaction list (DESIGN App. B.5: every booking valued at the booking day's price, plus one adjustment per price change and open non-V A/L position). "
              "Non-trivial: >=2 user transactions and >=1 value adjustment; distinct by (journal, V)."),
        assumptions=["forest price graphs only", "journals with a missing price are left to C03"],
        quick=dict(tests=[dict(name="TestC16", cases=12800)]),
        thorough=dict(tests=[dict(name="TestC16", cases=480000)]),
    ),
    "C15": dict(
        level="exploration",
        rule=("Inputs: training journals (empty file, no transactions, transactions only, mixed; accounts booked against themselves, bookings containing the placeholder, "
              "mirrored transactions that make two candidates tie, include trees of 1-4 files in nested directories, or the target itself as training file) x target journals "
              "in noisy layout (placeholder on credit side, debit side, both sides, several per transaction, none; look-alike accounts such as P:Sub, PX, lower-case P; placeholder "
              "in open/balance/@accrue positions) x placeholder (default Expenses:TBD or -a/--account NAME), stdout and --inplace. Oracle: `knut infer` output vs `knut format` of a copy "
              "of the target, both read with knut's parser: identical gaps and fields except booking accounts that were the placeholder; each of those is an account of a training booking "
              "(bookings containing the placeholder are not training data) different from the other account of its booking in the output, or unchanged exactly when no such account exists; "
              "output parses; 6 runs byte-identical (30 where the harness-side classification sees tied candidates, 2 when the target has no placeholder booking); output equals `knut format` of the formatted target with the chosen names substituted; --inplace leaves the same bytes and an empty stdout. "
              "Non-trivial: >=1 placeholder booking in the target and >=2 candidate accounts in the training journal; distinct by case."),
        assumptions=["knut's parser is used to read both outputs (trusted base, guarded by C07)",
                     "placeholder occurrences outside bookings (open/balance/@accrue) may stay or become a training account (statement is silent)",
                     "macro accounts ($x) are not generated"],
        quick=dict(tests=[dict(name="TestC15", cases=3200)]),
        thorough=dict(tests=[dict(name="TestC15", cases=48000)]),
    ),
    "C20": dict(
        level="exploration",
        rule=("Inputs: small investment journals (cash, broker, loan, equity, income, expense accounts; 1-3 priced commodities in a star or chain towards V, direct and inverse "
              "declarations) whose timeline mixes price-only steps, deposits/withdrawals in V, purchases (some with @performance), transfers between portfolio accounts, loans and expenses, "
              "with sparse dates so that period ends fall on directive-free days; x --to, interval, --last; for weights also universe YAML files with nested classes and unclassified "
              "commodities, -m mappings, --account/--commodity filters. Oracle weights (differential): `portfolio weights -v V --csv` vs `balance -v V --csv -s .` with the same flags: per "
              "date and output row, weight = (sum of the A/L rows of the commodities mapped onto the row) / (sum of all A/L rows) within 2e-6; groups = sum of members; top level = 100%; "
              "every balance date with holdings is a weights column; no NaN/Inf. Oracle returns: one line per period of the reference partition dated at its end; a period without flows "
              "between portfolio and other accounts and with positive start value shows 100*(V_end/V_start-1) within 0.051 (V from the reference valuation, not from knut); a period with "
              "unchanged prices and only deposits/withdrawals in V shows 0.0%. Non-trivial (weights): >=2 dates compared and >=2 commodities held; (returns): >=2 periods, >=1 flow-free or "
              "deposit-only period, and a period end on a directive-free day."),
        assumptions=["dates whose total holdings are (nearly) zero are skipped (shares undefined)", "weights without --from (the balance drops history before --from, weights do not)"],
        quick=dict(tests=[dict(name="TestC20Weights", cases=4800), dict(name="TestC20Returns", cases=9600)]),
        thorough=dict(tests=[dict(name="TestC20Weights", cases=160000), dict(name="TestC20Returns", cases=320000)]),
    ),
    "C19": dict(
        level="exploration",
        rule=("Inputs: journals of 40-150 generated actions over many days (accruals, closes, assertions, @performance, price forest), shuffled and dealt over include trees of "
              "up to 25 files in nested directories; a processor combination as the commands build them (check; balance pipeline check/prices/valuate/filter/close/query with -m level:suffix "
              "and --remap; portfolio weights/returns pipelines; print; transcode), with and without valuation, every interval; in 2/3 of the cases one injected fault: syntax error, "
              "missing include, invalid account type (load stages), failed assertion, unopened account, missing price (pipeline stages). "
              "Oracle (a) in-process, harness and knut libraries built with -race -tags verif, one schedule-perturbation seed per shard, GOMAXPROCS in {1,2,4,16}: journal.FromPath + Build().Process(...) "
              "under a watchdog; the race detector halts the shard on any race; census - the multiset of (date, kind, accounts/commodities, amounts, description) of the built journal equals "
              "what the generator wrote into the files (transactions after reference accrual expansion); with a fault the call returns an error of a failing stage (not success, not a bare "
              "cancellation); afterwards no goroutine of the loader or pipeline is left. (b) subprocess: the -race build of knut, 3 runs with different perturbation seeds/GOMAXPROCS, must "
              "report no race, exit like the plain binary and print the same bytes; a fault must give exit != 0. (c) registries: 2-16 goroutines resolve the same 1-60 account or commodity names "
              "concurrently, 5-40 rounds on fresh registries: every name must resolve to one object for all callers (a duplicate would split report rows and lose prices). "
              "Non-trivial: >=3 files, >=20 distinct days, >=3 pipeline stages; (c) >=2 names and >=2 goroutines."),
        assumptions=["detection of races is probabilistic: a race is seen only if the conflicting accesses overlap in some run (perturbation, GOMAXPROCS variation, repetition raise the odds)",
                     "liveness is checked as: returns within 90 s (in-process) / the two-stage subprocess timeout"],
        quick=dict(race_bin=True, race_test=True, tests=[dict(name="TestC19Lib", cases=480, sched_env=True, timeout="30m"), dict(name="TestC19CLI", cases=160, timeout="30m"),
                                                        dict(name="TestC19Registry", cases=1600, shards=8, timeout="30m")]),
        thorough=dict(race_bin=True, race_test=True, tests=[dict(name="TestC19Lib", cases=9600, sched_env=True, timeout="120m"), dict(name="TestC19CLI", cases=3200, timeout="120m"),
                                                           dict(name="TestC19Registry", cases=32000, shards=8, timeout="120m")]),
    ),
    "C18": dict(
        level="fault_enumeration",
        rule=("Inputs: `knut format f1..fn` over sets of 1-4 files and `knut infer --inplace [-a A] -t train target` (also self-trained); files are noisy renderings of "
              "syntactically valid journals (formatted form differs), byte-mutated ones (mostly unparseable), files that fail late (junk after the last directive, invalid byte in a comment), "
              "already formatted ones, arbitrary bytes and larger journals. "
              "Faults: RLIMIT_FSIZE=k through prlimit, with EVERY k in [0, len(new)+2] when the largest new content is <= 600 bytes (each k is one evaluation; the replay "
              "file lists the k tried), else the boundaries 0,1,len-1,len,len+1 of every target plus 8-14 drawn offsets; directory with mode 0555 while knut runs as uid 65534 "
              "(setpriv), optionally with further targets in a writable directory, preceded by a control run as the same user with writable directories; one fault-free run per case. "
              "Oracle: every target's bytes equal its old or its complete new content (format: in-process parser + syntax.FormatFile; infer: stdout of the same command without "
              "--inplace, or the formatted target with any trained candidate account in each slot); "
              "per file k < len(new) => old, k >= len(new) and parseable => new; unparseable / failing before the write => bit-identical; exit 0 iff every target was rewritten, "
              "otherwise exit != 0 with a diagnostic; files that are not targets (training file) unchanged; read-only directory => unchanged and exit != 0 while targets in writable "
              "directories are still rewritten. Leftover temporary files are labelled, not judged. "
              "Non-trivial: a limit strictly inside the write (0 < k < len(new)) of a target with new != old; distinct by (contents of the file set, k)."),
        assumptions=["RLIMIT_FSIZE faults stand for 'the write is cut short at byte k' (write returns EFBIG after k bytes); power loss between write and rename is not modelled",
                     "uid 65534 + mode 0555 stands for an unwritable directory (the harness itself runs as root)",
                     "fetch (third user of atomic.WriteFile) needs the network and is not exercised"],
        quick=dict(tests=[dict(name="TestC18", cases=256)]),
        thorough=dict(tests=[dict(name="TestC18", cases=1280)]),
    ),
    "C14": dict(
        level="exploration",
        rule=("Inputs: one knut invocation per case on a freshly materialised directory. Commands: check, check --write, balance, print, format, infer, transcode, "
              "portfolio returns, portfolio weights. Main file: arbitrary bytes, grammar-token soup, byte-level mutations of valid journals, empty/comment-only files, "
              "valid journals (history generator), syntactically valid noise (GenSyntaxJournal), semantically odd journals (accrual windows inverted/one day/200 years, "
              "dates 0001-01-01..9999-12-31, 400-digit amounts and decimals, invalid account types and dates, 10k-character tokens, Unicode digits, zero/negative/self prices, "
              "odd assertions/closes/opens). Include graphs: single, chain, deep chain (12-40), tree, diamond, duplicate include, self/mutual/3-cycle, wide-nested (16-70 files each including a further file), with one planted fault "
              "(missing file, directory, include \"\", garbage leaf, semantically invalid leaf, symlink loop, dangling symlink, mutated leaf). Flags: every flag of every command "
              "absent / valid / hostile (inverted and extreme windows, --last negative/huge/unparseable, -m negative/huge/malformed, --digits extremes, invalid regexes and dates, "
              "unknown or invalid valuation commodity, transcode without -v, infer without -t, universe files, unknown flags), file argument missing/nonexistent/directory/doubled. "
              "Oracle (process level, 4 GB address space, 20 s then 90 s): terminates; exit 0 or non-zero with non-empty stderr; no panic/fatal error/signal; a bad included file "
              "(by construction) => non-zero exit; failing balance/print/transcode/infer/check --write => empty stdout. Second oracle (late failure): journals of 60-200 generated actions over many days "
              "with one fault appended after the last day (failed assertion, unopened account, double open, close with a position, missing price), run through check --write, balance (text/csv, valued), "
              "print, transcode, register, portfolio weights: non-zero exit, diagnostic, and an empty stdout however much had been computed before the failing day. "
              "Non-trivial: the main file passes the parser, or has >=1 include, or non-default flags are used; distinct by case."),
        assumptions=["windows <= 200 years and interval flags chosen so that legitimate tables stay below ~20k columns; files <= 64 KB",
                     "format does not follow includes and the infer target is parsed alone: the bad-include rule is applied to check, balance, print, transcode, portfolio and the infer training file",
                     "unreadable files are represented by symlink loops and dangling symlinks (the sandbox runs as root, so permission bits are not effective)"],
        quick=dict(tests=[dict(name="TestC14", cases=12000), dict(name="TestC14Late", cases=1600)]),
        thorough=dict(tests=[dict(name="TestC14", cases=96000), dict(name="TestC14Late", cases=32000)],
                      fuzz=[dict(name="FuzzC14", seconds=120, seed_corpus=True)]),
    ),
}

# Scale: generator classes added after the seeded-change rounds that asked for regressions beyond a size threshold.
_LARGE = (" Scale: one case in sixteen (a conjunction of fair coins - rapid's integer ranges favour their ends) is a ledger of "
          "realistic size instead of a small example: 60-200 accounts (paths up to 9 segments, segment and commodity names that are long and share "
          "long prefixes), 10-40 commodities, 400-1600 generated actions with bursts of 200-1200 directives on one day, transactions with "
          "16-40 bookings, quantities beyond 2^31/2^53/2^64, files of 60-150 KB.")
for _p in ("C01", "C02", "C03", "C04", "C05", "C06", "C09", "C14", "C16", "C17", "C19"):
    CHECKS[_p]["rule"] += _LARGE
CHECKS["C07"]["rule"] += (" Scale: one input in a thousand is a file of 1025-2600 directives (0.3-1.5 MB), some transactions with 64-1100 bookings.")
CHECKS["C08"]["rule"] += (" Scale: one file in 256 (library) / 32 (CLI) has 1025-4500 directives (up to several hundred KiB).")
CHECKS["C10"]["rule"] += (" Scale: quantities with 19 and more significant digits (coefficients beyond 2^63), accrual windows of more than a thousand periods.")
CHECKS["C12"]["rule"] += (" Scale: one case in 64 is a price list of 66-160 commodities, most quoted against one commodity, some through another; prices with 9-12 decimals.")
CHECKS["C13"]["rule"] += (" Scale: statements of 40-120 rows; free-text fields of several hundred bytes with multi-byte letters at every alignment; amounts with two thousands separators.")
CHECKS["C15"]["rule"] += (" Scale: one case in 32 trains on 150-400 transactions over 66-160 accounts used equally often; target payees never seen in training.")
CHECKS["C20"]["rule"] += (" Scale: one case in 16 is a portfolio of 33-60 securities funded by transactions with 9-60 bookings.")

