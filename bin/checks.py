"""Per-property configuration of the driver (tests, case counts, rules)."""

CHECKS = {
    "C07": dict(
        level="exploration",
        rule=("Inputs: rendered syntactically valid journals with layout noise (tabs, CRLF, trailing blanks, comment lines, "
              "annotation order, multi-line assertions, missing final newline), the same with 1-3 byte-level edits, "
              "grammar-token soup, and arbitrary bytes. Oracle: in-process parser under recover+watchdog; tree invariants "
              "(ranges, nesting, order, gaps, element shapes, exact cover) or positioned renderable error. "
              "Non-trivial: parses with >=1 directive, or fails after >=1 complete directive; distinct by input bytes."),
        assumptions=["library-level: parser.New(text).Advance(); ParseFile() is the entry every command uses (syntax.ParseFile / parseRec)"],
        quick=dict(tests=[dict(name="TestC07", cases=480000)]),
        thorough=dict(tests=[dict(name="TestC07", cases=6000000)],
                      fuzz=[dict(name="FuzzC07", seconds=90, seed_corpus=True), dict(name="FuzzC07", seconds=60, seed_corpus=False)]),
    ),
    "C11": dict(
        level="exploration",
        rule=("Inputs: (start, end, interval, last) biased to month/quarter/year ends, leap days, week boundaries, start>end, 1900-2100; "
              "thorough adds a bounded exhaustive sweep (every start 2019-12-20..2021-03-10 x length -3..430 x 6 intervals x last in {0,1,2,5}). "
              "Oracle: own civil calendar (no time.AddDate): invariants stated in the property checked directly on date.NewPartition's output "
              "(consecutive, disjoint, covering, never straddling a unit, adjacent periods in different units, exact --last count), equality with the "
              "reference partition, and Align(d) for every d in [start-40,end+40]; CLI: column headers of `knut balance` for drawn --from/--to/interval/--last. "
              "Non-trivial: window crosses a unit boundary with a clipped first or last period, contains Feb 29, or start>end (library); "
              ">=2 periods with a window flag or --last (CLI)."),
        assumptions=["negative --last values are outside the statement and not generated", "dates 1900-2100"],
        quick=dict(tests=[dict(name="TestC11", cases=160000), dict(name="TestC11CLI", cases=1600)]),
        thorough=dict(tests=[dict(name="TestC11", cases=1600000), dict(name="TestC11CLI", cases=16000),
                             dict(name="TestSweepC11", cases=1, env=dict(VERIF_SWEEP=1))]),
    ),
    "C04": dict(
        level="exploration",
        rule=("Inputs: journals built by a history generator (open/book/assert/close/settle/price/accrual actions on a forward clock, valid by construction) "
              "followed by 0-2 drawn damages (drop/duplicate/extra open, extra booking, extra close, assertion off by epsilon, extra assertion incl. zero on "
              "never-held commodities and non-A/L accounts, shift a directive by one day, drop a close) and optional shuffling of the file order and noisy layout. "
              "Oracle: independent lifecycle model (statement of C04, exact rationals, own accrual expansion) vs exit status of knut check / print / balance; "
              "rejected: stderr non-empty, stdout empty, and for single-damage cases stderr contains the date and account of the first offending directive. "
              "Non-trivial: the verdict involves same-day open/use/assert/close of one account, or exactly one damage led to rejection; distinct by journal text."),
        assumptions=["within one file, arrival order is file order", "accrual split rule as documented (x/n truncated at one decimal, remainder first)"],
        quick=dict(tests=[dict(name="TestC04", cases=16000)]),
        thorough=dict(tests=[dict(name="TestC04", cases=320000)]),
    ),
    "C10": dict(
        level="exploration",
        rule=("Inputs: transactions with 1-5 bookings over all five account types (incl. equity and the accrual account itself), quantities with up to 12 decimals, "
              "negative and zero amounts, @accrue with every interval (the four the parser accepts through parsed text; once/yearly through hand-built syntax nodes), "
              "windows with start<=end placed independently of the transaction date. Oracle (library: transaction.Create; CLI: knut print read by the harness's own reader): "
              "every generated transaction balances per commodity; per (account != accrual account, commodity) the total equals the original; the accrual account nets to zero; "
              "income/expense legs appear once per period of the reference partition dated at the period ends, all other legs on the original date. "
              "Non-trivial: >=2 periods and (amount not divisible at one decimal, negative amount, >=2 bookings, or an equity leg); distinct by transaction."),
        assumptions=["equal-sized parts are not asserted (not promised by the statement)", "windows with start>end are outside the property (C14 covers the crash)"],
        quick=dict(tests=[dict(name="TestC10", cases=160000), dict(name="TestC10CLI", cases=1600)]),
        thorough=dict(tests=[dict(name="TestC10", cases=3200000), dict(name="TestC10CLI", cases=32000)]),
    ),
}
