"""Per-property configuration of the driver (tests, case counts, rules)."""

CHECKS = {
    "C07": dict(
        level="exploration",
        rule=("Inputs: rendered syntactically valid journals with layout noise (tabs, CRLF, trailing blanks, comment lines, "
              "annotation order, multi-line assertions, missing final newline), the same with 1-3 byte-level edits, "
              "grammar-token soup, and arbitrary bytes. Oracle: in-process parser under recover+watchdog; tree invariants "
              "(ranges, nesting, order, gaps, element shapes, exact cover) or positioned renderable error. "
              "Non-trivial: parses with >=1 directive, or fails after >=1 complete directive; distinct by input bytes."),
        assumptions=["library-level: parser.New(text).Advance(); ParseFile() is the entry every command uses (syntax.ParseFile / parseRec)"],
        quick=dict(tests=[dict(name="TestC07", cases=48000)]),
        thorough=dict(tests=[dict(name="TestC07", cases=800000)],
                      fuzz=[dict(name="FuzzC07", seconds=90, seed_corpus=True), dict(name="FuzzC07", seconds=60, seed_corpus=False)]),
    ),
}
