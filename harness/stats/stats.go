// Package stats collects per-run evidence: evaluations, distinct non-trivial
// cases (by hash of a canonical form), label histogram, samples, exclusions
// and known findings seen. One Recorder per property and process; the driver
// merges the per-shard JSON files into evidence/<ID>.json.
package stats

import (
	"encoding/json"
	"hash/fnv"
	"os"
	"sort"
	"sync"
	"time"
)

type Recorder struct {
	mu          sync.Mutex
	Property    string
	evaluations int
	nontrivial  map[uint64]struct{}
	labels      map[string]int
	excluded    map[string]int
	known       map[string]int
	samples     []any
	maxSamples  int
	start       time.Time
	violations  int
	notes       []string
}

var (
	mu   sync.Mutex
	recs = map[string]*Recorder{}
)

// Get returns the process-wide recorder of a property.
func Get(prop string) *Recorder {
	mu.Lock()
	defer mu.Unlock()
	r, ok := recs[prop]
	if !ok {
		r = &Recorder{
			Property:   prop,
			nontrivial: map[uint64]struct{}{},
			labels:     map[string]int{},
			excluded:   map[string]int{},
			known:      map[string]int{},
			maxSamples: 4,
			start:      time.Now(),
		}
		recs[prop] = r
	}
	return r
}

func Hash(s string) uint64 {
	h := fnv.New64a()
	h.Write([]byte(s))
	return h.Sum64()
}

// Case records one evaluated case. canon is the canonical text of the case
// (used for distinctness), nontrivial the verdict of the property's stated
// rule, sample a JSON-serialisable rendering kept for the first few
// non-trivial cases.
func (r *Recorder) Case(canon string, nontrivial bool, sample func() any, labels ...string) {
	r.mu.Lock()
	defer r.mu.Unlock()
	r.evaluations++
	for _, l := range labels {
		r.labels[l]++
	}
	if !nontrivial {
		return
	}
	h := Hash(canon)
	if _, seen := r.nontrivial[h]; seen {
		return
	}
	r.nontrivial[h] = struct{}{}
	if len(r.samples) < r.maxSamples && sample != nil {
		r.samples = append(r.samples, sample())
	}
}

// Eval counts additional evaluations (e.g. several knut invocations per case).
func (r *Recorder) Eval(n int) {
	r.mu.Lock()
	r.evaluations += n
	r.mu.Unlock()
}

func (r *Recorder) Label(l string) {
	r.mu.Lock()
	r.labels[l]++
	r.mu.Unlock()
}

func (r *Recorder) Excluded(what string) {
	r.mu.Lock()
	r.excluded[what]++
	r.mu.Unlock()
}

func (r *Recorder) Known(id string) {
	r.mu.Lock()
	r.known[id]++
	r.mu.Unlock()
}

func (r *Recorder) Violation() {
	r.mu.Lock()
	r.violations++
	r.mu.Unlock()
}

func (r *Recorder) Note(s string) {
	r.mu.Lock()
	if len(r.notes) < 20 {
		r.notes = append(r.notes, s)
	}
	r.mu.Unlock()
}

type File struct {
	Property    string         `json:"property"`
	Evaluations int            `json:"evaluations"`
	Nontrivial  []uint64       `json:"nontrivial_hashes"`
	Labels      map[string]int `json:"labels"`
	Excluded    map[string]int `json:"excluded_known"`
	Known       map[string]int `json:"known_findings_seen"`
	Samples     []any          `json:"samples"`
	Violations  int            `json:"violations"`
	Notes       []string       `json:"notes,omitempty"`
	WallS       float64        `json:"wall_s"`
}

// FlushAll writes every recorder to $VERIF_STATS_OUT (a JSON list), if set.
func FlushAll() {
	out := os.Getenv("VERIF_STATS_OUT")
	if out == "" {
		return
	}
	mu.Lock()
	defer mu.Unlock()
	var files []File
	var names []string
	for n := range recs {
		names = append(names, n)
	}
	sort.Strings(names)
	for _, n := range names {
		r := recs[n]
		r.mu.Lock()
		f := File{
			Property:    r.Property,
			Evaluations: r.evaluations,
			Labels:      r.labels,
			Excluded:    r.excluded,
			Known:       r.known,
			Samples:     r.samples,
			Violations:  r.violations,
			Notes:       r.notes,
			WallS:       time.Since(r.start).Seconds(),
		}
		for h := range r.nontrivial {
			f.Nontrivial = append(f.Nontrivial, h)
		}
		sort.Slice(f.Nontrivial, func(i, j int) bool { return f.Nontrivial[i] < f.Nontrivial[j] })
		r.mu.Unlock()
		files = append(files, f)
	}
	b, _ := json.Marshal(files)
	os.WriteFile(out, b, 0o644)
}
