module verifharness

go 1.23

replace github.com/sboehler/knut => /repo

require (
	github.com/sboehler/knut v0.0.0-00010101000000-000000000000
	pgregory.net/rapid v1.3.0
)

require github.com/shopspring/decimal v1.3.1 // indirect
