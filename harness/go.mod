module verifharness

go 1.23

replace github.com/sboehler/knut => /repo

require (
	github.com/sboehler/knut v0.0.0-00010101000000-000000000000
	github.com/shopspring/decimal v1.3.1
	pgregory.net/rapid v1.3.0
)

require (
	github.com/fatih/color v1.15.0 // indirect
	github.com/mattn/go-colorable v0.1.13 // indirect
	github.com/mattn/go-isatty v0.0.19 // indirect
	github.com/sourcegraph/conc v0.3.0 // indirect
	golang.org/x/exp v0.0.0-20230817173708-d852ddb80c63 // indirect
	golang.org/x/sync v0.3.0 // indirect
	golang.org/x/sys v0.11.0 // indirect
	gopkg.in/yaml.v2 v2.4.0 // indirect
)
