package knutio

import (
	"encoding/csv"
	"fmt"
	"math/big"
	"regexp"
	"strings"
	"unicode"
	"unicode/utf8"

	"verifharness/ref"
)

// BalanceRow is one line of a balance report.
type BalanceRow struct {
	Section string   // "AL", "EIE", "TotalAL", "TotalEIE", "Delta"
	Path    []string // account path from the indentation (text renderer only); nil for totals
	Name    string   // the printed segment / total label ("" on commodity continuation lines)
	Comm    string   // commodity column ("" if the report has none)
	Cells   []string // one per date column, commas removed, "" = blank
	Line    int
}

// Account returns the full account name of an account row.
func (r BalanceRow) Account() string { return strings.Join(r.Path, ":") }

// Value returns cell i as an exact rational (blank = 0).
func (r BalanceRow) Value(i int) (*big.Rat, error) {
	if i >= len(r.Cells) || r.Cells[i] == "" {
		return new(big.Rat), nil
	}
	v, ok := ref.ParseDec(r.Cells[i])
	if !ok {
		return nil, fmt.Errorf("line %d: cell %q is not a decimal", r.Line, r.Cells[i])
	}
	return v, nil
}

// BalanceTable is a parsed `knut balance` report.
type BalanceTable struct {
	Dates   []string
	HasComm bool
	Rows    []BalanceRow
}

// ParseBalanceText reads the text rendering (`--color=false`). The account
// tree is recovered from the two-space indentation of the first column.
func ParseBalanceText(out string) (*BalanceTable, error) {
	t := &BalanceTable{}
	lines := strings.Split(out, "\n")
	section := ""
	seenHeader := false
	var stack []string
	var lastPath []string
	border := ""
	totals := 0
	for ln, l := range lines {
		// frame lines carry no letter or digit (whatever characters the frame is drawn with)
		if strings.IndexFunc(l, func(r rune) bool { return unicode.IsLetter(r) || unicode.IsDigit(r) }) < 0 {
			continue
		}
		if border == "" {
			// the first content line is the header; its first character is the column separator
			r, _ := utf8.DecodeRuneInString(l)
			if unicode.IsLetter(r) || unicode.IsDigit(r) || unicode.IsSpace(r) {
				return nil, fmt.Errorf("line %d: not a table line: %q", ln+1, l)
			}
			border = string(r)
		}
		if !strings.HasPrefix(l, border+" ") || !strings.HasSuffix(l, " "+border) {
			return nil, fmt.Errorf("line %d: not a table line: %q", ln+1, l)
		}
		body := l[len(border)+1 : len(l)-len(border)-1]
		cells := strings.Split(body, " "+border+" ")
		if !seenHeader {
			seenHeader = true
			rest := cells[1:]
			if len(rest) > 0 && !isDateHeader(strings.TrimSpace(rest[0])) && strings.TrimSpace(rest[0]) != "" {
				t.HasComm = true // a column between the account and the first date: the commodity
				rest = rest[1:]
			}
			for _, c := range rest {
				t.Dates = append(t.Dates, strings.TrimSpace(c))
			}
			section = "AL"
			continue
		}
		want := 1 + len(t.Dates)
		if t.HasComm {
			want++
		}
		if len(cells) != want {
			return nil, fmt.Errorf("line %d: %d cells, header has %d: %q", ln+1, len(cells), want, l)
		}
		first := cells[0]
		name := strings.TrimSpace(first)
		row := BalanceRow{Line: ln + 1, Name: name}
		idx := 1
		if t.HasComm {
			row.Comm = strings.TrimSpace(cells[1])
			idx = 2
		}
		allBlank := name == "" && row.Comm == ""
		for _, c := range cells[idx:] {
			c = strings.ReplaceAll(strings.TrimSpace(c), ",", "")
			row.Cells = append(row.Cells, c)
			if c != "" {
				allBlank = false
			}
		}
		if allBlank {
			continue
		}
		// the two total rows and the Delta row are recognised by their labels, or (should the labels be worded
		// differently) by "Total..." in order of appearance and the first named row after the second total
		key := name
		switch {
		case name == "Total (A+L)" || name == "Total (E+I+E)" || name == "Delta":
		case strings.HasPrefix(name, "Total") && first == strings.TrimLeft(first, " ") && totals == 0:
			key = "Total (A+L)"
		case strings.HasPrefix(name, "Total") && first == strings.TrimLeft(first, " ") && totals == 1:
			key = "Total (E+I+E)"
		case name != "" && section == "DeltaNext":
			key = "Delta"
		}
		switch key {
		case "Total (A+L)":
			totals++
			row.Section = "TotalAL"
			section = "TotalAL"
			t.Rows = append(t.Rows, row)
			section = "EIE"
			stack, lastPath = nil, nil
			// continuation lines of the total follow with an empty name
			lastPath = []string{"\x00TotalAL"}
			continue
		case "Total (E+I+E)":
			totals++
			row.Section = "TotalEIE"
			t.Rows = append(t.Rows, row)
			section = "DeltaNext"
			lastPath = []string{"\x00TotalEIE"}
			continue
		case "Delta":
			row.Section = "Delta"
			t.Rows = append(t.Rows, row)
			lastPath = []string{"\x00Delta"}
			section = "Done"
			continue
		}
		if name == "" {
			// commodity continuation of the previous row
			if len(lastPath) == 1 && strings.HasPrefix(lastPath[0], "\x00") {
				row.Section = strings.TrimPrefix(lastPath[0], "\x00")
			} else {
				row.Section = section
				row.Path = lastPath
			}
			t.Rows = append(t.Rows, row)
			continue
		}
		indent := len(first) - len(strings.TrimLeft(first, " "))
		if indent%2 != 0 {
			return nil, fmt.Errorf("line %d: odd indentation %d", ln+1, indent)
		}
		depth := indent / 2
		if depth > len(stack) {
			return nil, fmt.Errorf("line %d: indentation jumps from depth %d to %d", ln+1, len(stack), depth)
		}
		stack = append(stack[:depth:depth], name)
		row.Path = append([]string{}, stack...)
		row.Section = section
		lastPath = row.Path
		t.Rows = append(t.Rows, row)
	}
	if !seenHeader {
		return nil, fmt.Errorf("no table header found")
	}
	return t, nil
}

var dateHeaderRe = regexp.MustCompile(`^\d{4}-\d{2}-\d{2}`)

func isDateHeader(s string) bool { return dateHeaderRe.MatchString(s) }

// ParseBalanceCSV reads the CSV rendering. There is no indentation, so account
// rows carry only the printed segment as Name; totals and Delta are identified.
func ParseBalanceCSV(out string) (*BalanceTable, error) {
	r := csv.NewReader(strings.NewReader(out))
	r.FieldsPerRecord = -1
	recs, err := r.ReadAll()
	if err != nil {
		return nil, err
	}
	if len(recs) == 0 {
		return nil, fmt.Errorf("empty csv")
	}
	t := &BalanceTable{}
	h := recs[0]
	if len(h) == 0 {
		return nil, fmt.Errorf("csv header: %v", h)
	}
	rest := h[1:]
	if len(rest) > 0 && !isDateHeader(rest[0]) && rest[0] != "" {
		t.HasComm = true
		rest = rest[1:]
	}
	t.Dates = rest
	section := "AL"
	last := ""
	for i, rec := range recs[1:] {
		rec[0] = strings.TrimSpace(rec[0]) // an indented label is the same label
		row := BalanceRow{Line: i + 2, Name: rec[0]}
		idx := 1
		if t.HasComm {
			if len(rec) > 1 {
				row.Comm = strings.TrimSpace(rec[1])
			}
			idx = 2
		}
		if len(rec) > idx {
			row.Cells = append(row.Cells, rec[idx:]...)
		}
		key := rec[0]
		switch {
		case key == "Total (A+L)" || key == "Total (E+I+E)" || key == "Delta":
		case strings.HasPrefix(key, "Total") && section == "AL":
			key = "Total (A+L)"
		case strings.HasPrefix(key, "Total") && section == "EIE":
			key = "Total (E+I+E)"
		case key != "" && section == "Done" && last == "TotalEIE":
			key = "Delta"
		}
		switch key {
		case "Total (A+L)":
			row.Section, last, section = "TotalAL", "TotalAL", "EIE"
		case "Total (E+I+E)":
			row.Section, last, section = "TotalEIE", "TotalEIE", "Done"
		case "Delta":
			row.Section, last = "Delta", "Delta"
		case "":
			if last != "" {
				row.Section = last
			} else {
				row.Section = section
			}
		default:
			row.Section, last = section, ""
		}
		t.Rows = append(t.Rows, row)
	}
	return t, nil
}
