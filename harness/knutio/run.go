// Package knutio runs the freshly built knut binary as a subprocess and reads
// its outputs (text tables, CSV, printed journals, beancount).
package knutio

import (
	"bytes"
	"context"
	"errors"
	"fmt"
	"os"
	"os/exec"
	"path/filepath"
	"sort"
	"strings"
	"sync/atomic"
	"syscall"
	"time"
)

// Result of one knut invocation.
type Result struct {
	Stdout   string `json:"stdout"`
	Stderr   string `json:"stderr"`
	Exit     int    `json:"exit"`
	TimedOut bool   `json:"timed_out,omitempty"`
	Signaled bool   `json:"signaled,omitempty"`
}

func (r Result) OK() bool { return r.Exit == 0 && !r.TimedOut && !r.Signaled }

// Panicked reports whether stderr shows a Go panic / fatal error.
func (r Result) Panicked() bool {
	return strings.Contains(r.Stderr, "panic:") || strings.Contains(r.Stderr, "fatal error:") ||
		strings.Contains(r.Stderr, "goroutine ") && strings.Contains(r.Stderr, "[running]")
}

func (r Result) Brief() string {
	so, se := r.Stdout, r.Stderr
	if len(so) > 1500 {
		so = so[:1500] + "…"
	}
	if len(se) > 1500 {
		se = se[:1500] + "…"
	}
	return fmt.Sprintf("exit=%d timedout=%v signaled=%v\n--stdout--\n%s\n--stderr--\n%s", r.Exit, r.TimedOut, r.Signaled, so, se)
}

// Bin returns the path of the knut binary under test.
func Bin() string {
	b := os.Getenv("KNUT_BIN")
	if b == "" {
		panic("KNUT_BIN not set (run through bin/check)")
	}
	return b
}

// RaceBin returns the -race build, or "" when the driver did not build one.
func RaceBin() string { return os.Getenv("KNUT_RACE_BIN") }

// Opts for a run.
type Opts struct {
	Dir     string
	Env     []string // extra KEY=VALUE
	Bin     string   // default Bin()
	Prefix  []string // command prefix, e.g. prlimit --fsize=K
	Stdin   string
	Timeout time.Duration // first-stage timeout (default 20 s)
}

var Invocations atomic.Int64

// Run executes knut with args. A first-stage timeout is retried once with a
// 90 s budget; only a repeated timeout is reported as TimedOut.
func Run(o Opts, args ...string) Result {
	first := o.Timeout
	if first == 0 {
		first = 20 * time.Second
	}
	r := runOnce(o, first, args)
	if r.TimedOut {
		r = runOnce(o, 90*time.Second, args)
	}
	// A failure of the harness to run or to collect the process (exec error, pipes not drained on an
	// overloaded machine) says nothing about knut: retry, and give up loudly rather than judge it.
	for attempt := 0; r.Exit == -2 && attempt < 3; attempt++ {
		time.Sleep(time.Duration(attempt+1) * 500 * time.Millisecond)
		r = runOnce(o, 90*time.Second, args)
	}
	if r.Exit == -2 {
		panic("harness: cannot run knut: " + r.Stderr)
	}
	return r
}

func runOnce(o Opts, timeout time.Duration, args []string) Result {
	Invocations.Add(1)
	bin := o.Bin
	if bin == "" {
		bin = Bin()
	}
	argv := append(append([]string{}, o.Prefix...), bin)
	argv = append(argv, args...)
	ctx, cancel := context.WithTimeout(context.Background(), timeout)
	defer cancel()
	cmd := exec.CommandContext(ctx, argv[0], argv[1:]...)
	cmd.Dir = o.Dir
	cmd.Env = append([]string{
		"PATH=" + os.Getenv("PATH"),
		"HOME=" + os.Getenv("HOME"),
		"TZ=UTC",
		"NO_COLOR=",
	}, o.Env...)
	if o.Stdin != "" {
		cmd.Stdin = strings.NewReader(o.Stdin)
	}
	var so, se bytes.Buffer
	cmd.Stdout = &so
	cmd.Stderr = &se
	cmd.WaitDelay = 30 * time.Second
	err := cmd.Run()
	res := Result{Stdout: so.String(), Stderr: se.String()}
	if err != nil {
		var ee *exec.ExitError
		if errors.As(err, &ee) {
			res.Exit = ee.ExitCode()
			if ws, ok := ee.Sys().(syscall.WaitStatus); ok && ws.Signaled() {
				res.Signaled = true
				res.Exit = -1
			}
		} else {
			res.Exit = -2
			res.Stderr += "\n[harness] " + err.Error()
		}
		if ctx.Err() == context.DeadlineExceeded {
			res.TimedOut = true
			res.Signaled = false
		}
	}
	return res
}

// WorkRoot is the directory under which per-case directories are created.
func WorkRoot() string {
	w := os.Getenv("VERIF_WORK")
	if w == "" {
		w = os.TempDir()
	}
	return w
}

// Materialise writes files (relative name → content) into a fresh directory
// and returns it together with a cleanup function.
func Materialise(files map[string]string) (string, func()) {
	dir, err := os.MkdirTemp(WorkRoot(), "case-")
	if err != nil {
		panic(err)
	}
	os.Chmod(dir, 0o755)
	names := make([]string, 0, len(files))
	for n := range files {
		names = append(names, n)
	}
	sort.Strings(names)
	for _, n := range names {
		p := filepath.Join(dir, n)
		if err := os.MkdirAll(filepath.Dir(p), 0o755); err != nil {
			panic(err)
		}
		if err := os.WriteFile(p, []byte(files[n]), 0o644); err != nil {
			panic(err)
		}
	}
	return dir, func() {
		filepath.Walk(dir, func(p string, info os.FileInfo, err error) error {
			if err == nil && info.IsDir() {
				os.Chmod(p, 0o755)
			}
			return nil
		})
		os.RemoveAll(dir)
	}
}
