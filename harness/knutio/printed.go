package knutio

import (
	"fmt"
	"regexp"
	"strings"

	"verifharness/ref"
)

var (
	reSimple = regexp.MustCompile(`^(\d{4}-\d{2}-\d{2}) (open|close|price|balance)(?: (.*))?$`)
	reHeader = regexp.MustCompile(`^(\d{4}-\d{2}-\d{2}) "`)
)

// ParsePrinted reads the normal form emitted by `knut print` (and by the
// importers) with the harness's own recogniser — not knut's parser. It
// accepts exactly the shapes the journal printer produces: one directive per
// block, `@performance(...)` on its own line before a transaction header, a
// quoted description that may span lines, booking lines "credit debit qty
// commodity", single- and multi-line assertions.
func ParsePrinted(text string) ([]ref.Directive, error) {
	lines := strings.Split(text, "\n")
	var ds []ref.Directive
	var perf []string
	hasPerf := false
	for i := 0; i < len(lines); i++ {
		l := lines[i]
		if strings.TrimSpace(l) == "" {
			continue
		}
		if strings.HasPrefix(l, "@performance(") && strings.HasSuffix(l, ")") {
			inner := l[len("@performance(") : len(l)-1]
			hasPerf = true
			perf = nil
			if inner != "" {
				perf = strings.Split(inner, ",")
			}
			continue
		}
		if m := reSimple.FindStringSubmatch(l); m != nil {
			day, err := ref.ParseDay(m[1])
			if err != nil {
				return ds, fmt.Errorf("line %d: %v", i+1, err)
			}
			f := strings.Fields(m[3])
			switch m[2] {
			case "open", "close":
				if len(f) != 1 {
					return ds, fmt.Errorf("line %d: bad %s: %q", i+1, m[2], l)
				}
				k := ref.KOpen
				if m[2] == "close" {
					k = ref.KClose
				}
				ds = append(ds, ref.Directive{Kind: k, Date: day, Account: f[0]})
			case "price":
				if len(f) != 3 {
					return ds, fmt.Errorf("line %d: bad price: %q", i+1, l)
				}
				ds = append(ds, ref.Directive{Kind: ref.KPrice, Date: day, Com: f[0], Price: f[1], Target: f[2]})
			case "balance":
				d := ref.Directive{Kind: ref.KAssert, Date: day}
				if len(f) == 3 {
					d.Balances = []ref.Balance{{Account: f[0], Qty: f[1], Com: f[2]}}
				} else if len(f) == 0 {
					for i+1 < len(lines) && strings.TrimSpace(lines[i+1]) != "" {
						i++
						bf := strings.Fields(lines[i])
						if len(bf) != 3 {
							return ds, fmt.Errorf("line %d: bad balance line: %q", i+1, lines[i])
						}
						d.Balances = append(d.Balances, ref.Balance{Account: bf[0], Qty: bf[1], Com: bf[2]})
					}
					if len(d.Balances) == 0 {
						return ds, fmt.Errorf("line %d: assertion without balances", i+1)
					}
				} else {
					return ds, fmt.Errorf("line %d: bad balance: %q", i+1, l)
				}
				ds = append(ds, d)
			}
			if hasPerf {
				return ds, fmt.Errorf("line %d: @performance not followed by a transaction", i+1)
			}
			continue
		}
		if m := reHeader.FindStringSubmatch(l); m != nil {
			day, err := ref.ParseDay(m[1])
			if err != nil {
				return ds, fmt.Errorf("line %d: %v", i+1, err)
			}
			rest := l[len(m[0]):]
			var desc strings.Builder
			for {
				if q := strings.IndexByte(rest, '"'); q >= 0 {
					desc.WriteString(rest[:q])
					if strings.TrimSpace(rest[q+1:]) != "" {
						return ds, fmt.Errorf("line %d: text after the description: %q", i+1, rest[q+1:])
					}
					break
				}
				desc.WriteString(rest)
				desc.WriteString("\n")
				i++
				if i >= len(lines) {
					return ds, fmt.Errorf("unterminated description")
				}
				rest = lines[i]
			}
			d := ref.Directive{Kind: ref.KTrx, Date: day, Desc: desc.String(), HasPerf: hasPerf, Perf: perf}
			hasPerf, perf = false, nil
			for i+1 < len(lines) && strings.TrimSpace(lines[i+1]) != "" {
				i++
				bf := strings.Fields(lines[i])
				if len(bf) != 4 {
					return ds, fmt.Errorf("line %d: bad booking line: %q", i+1, lines[i])
				}
				if _, ok := ref.ParseDec(bf[2]); !ok {
					return ds, fmt.Errorf("line %d: bad quantity %q", i+1, bf[2])
				}
				d.Bookings = append(d.Bookings, ref.Booking{Credit: bf[0], Debit: bf[1], Qty: bf[2], Com: bf[3]})
			}
			if len(d.Bookings) == 0 {
				return ds, fmt.Errorf("line %d: transaction without bookings", i+1)
			}
			ds = append(ds, d)
			continue
		}
		return ds, fmt.Errorf("line %d: unrecognised line %q", i+1, l)
	}
	if hasPerf {
		return ds, fmt.Errorf("dangling @performance")
	}
	return ds, nil
}
