package knutio

import (
	"fmt"
	"math/big"
	"regexp"
	"strings"

	"verifharness/ref"
)

// BeanEntry is one entry of the beancount text emitted by `knut transcode`.
type BeanEntry struct {
	Kind     string // "open", "close", "trx"
	Date     ref.Day
	Account  string
	Desc     string
	Postings []BeanPosting
	Line     int
}

type BeanPosting struct {
	Account   string
	Amount    *big.Rat
	Commodity string
}

var (
	reBeanSimple = regexp.MustCompile(`^(\d{4}-\d{2}-\d{2}) (open|close) (\S+)$`)
	reBeanTrx    = regexp.MustCompile(`^(\d{4}-\d{2}-\d{2}) \* "`)
	reBeanOption = regexp.MustCompile(`^option "operating_currency" "([^"]*)"$`)
)

// ParseBeancount reads the subset of beancount that transcode emits, with the
// harness's own recogniser.
func ParseBeancount(text string) (currency string, entries []BeanEntry, err error) {
	lines := strings.Split(text, "\n")
	for i := 0; i < len(lines); i++ {
		l := lines[i]
		if strings.TrimSpace(l) == "" {
			continue
		}
		if m := reBeanOption.FindStringSubmatch(l); m != nil {
			currency = m[1]
			continue
		}
		if m := reBeanSimple.FindStringSubmatch(l); m != nil {
			d, e := ref.ParseDay(m[1])
			if e != nil {
				return currency, entries, fmt.Errorf("line %d: %v", i+1, e)
			}
			entries = append(entries, BeanEntry{Kind: m[2], Date: d, Account: m[3], Line: i + 1})
			continue
		}
		if m := reBeanTrx.FindStringSubmatch(l); m != nil {
			d, e := ref.ParseDay(m[1])
			if e != nil {
				return currency, entries, fmt.Errorf("line %d: %v", i+1, e)
			}
			ent := BeanEntry{Kind: "trx", Date: d, Line: i + 1}
			rest := l[len(m[0]):]
			var desc strings.Builder
			for {
				if q := strings.IndexByte(rest, '"'); q >= 0 {
					desc.WriteString(rest[:q])
					break
				}
				desc.WriteString(rest + "\n")
				i++
				if i >= len(lines) {
					return currency, entries, fmt.Errorf("unterminated description")
				}
				rest = lines[i]
			}
			ent.Desc = desc.String()
			for i+1 < len(lines) && strings.HasPrefix(lines[i+1], "  ") {
				i++
				f := strings.Fields(lines[i])
				if len(f) != 3 {
					return currency, entries, fmt.Errorf("line %d: bad posting %q", i+1, lines[i])
				}
				amt, ok := ref.ParseDec(f[1])
				if !ok {
					return currency, entries, fmt.Errorf("line %d: bad amount %q", i+1, f[1])
				}
				ent.Postings = append(ent.Postings, BeanPosting{Account: f[0], Amount: amt, Commodity: f[2]})
			}
			entries = append(entries, ent)
			continue
		}
		return currency, entries, fmt.Errorf("line %d: unrecognised line %q", i+1, l)
	}
	return currency, entries, nil
}
