package gen

import (
	"fmt"
	"strings"

	"pgregory.net/rapid"

	"verifharness/ref"
)

// GenSyntaxJournal draws a list of syntactically valid directives without
// regard to accounting validity (for the syntax-level properties C07, C08,
// C15): all kinds, addons, Unicode names, multi-line descriptions.
func GenSyntaxJournal(t *rapid.T, maxN int, includes bool) []ref.Directive {
	return GenSyntaxJournalN(t, 0, maxN, includes)
}

// GenSyntaxJournalN is GenSyntaxJournal with a lower bound on the number of directives; above 500 directives
// a transaction occasionally carries hundreds of bookings (a broker's year-end statement pasted as one entry).
func GenSyntaxJournalN(t *rapid.T, minN, maxN int, includes bool) []ref.Directive {
	n := rapid.IntRange(minN, maxN).Draw(t, "nDirectives")
	pool := append(append([]string{}, segPoolASCII...), segPoolUni...)
	cpool := append(append([]string{}, comPool...), comPoolUni...)
	account := func() string {
		typ := rapid.SampledFrom(append([]string{"Assets", "Assets", "Expenses"}, typeNames...)).Draw(t, "type")
		if rapid.IntRange(0, 30).Draw(t, "oddType") == 0 {
			typ = rapid.SampledFrom([]string{"Foo", "assets", "X9"}).Draw(t, "oddTypeName")
		}
		depth := rapid.IntRange(0, 3).Draw(t, "depth")
		segs := []string{typ}
		for i := 0; i < depth; i++ {
			segs = append(segs, rapid.SampledFrom(pool).Draw(t, "seg"))
		}
		return strings.Join(segs, ":")
	}
	date := func() ref.Day {
		y := rapid.SampledFrom([]int{2019, 2020, 2020, 2021, 1999, 2100}).Draw(t, "y")
		m := rapid.IntRange(1, 12).Draw(t, "m")
		return ref.FromCivil(y, m, rapid.IntRange(1, ref.DaysIn(y, m)).Draw(t, "d"))
	}
	qty := func() string { return DrawQty(t, 8, true) }
	com := func() string { return rapid.SampledFrom(cpool).Draw(t, "com") }
	desc := func() string {
		nw := rapid.IntRange(0, 4).Draw(t, "nw")
		var ws []string
		for i := 0; i < nw; i++ {
			ws = append(ws, rapid.SampledFrom(append([]string{"'", ";", ",", "\\", "tab\there", "ünï", "  two  spaces", "@accrue", "include"}, descWords...)).Draw(t, "w"))
		}
		s := " "
		if rapid.IntRange(0, 6).Draw(t, "ml") == 0 {
			s = "\n"
		}
		return strings.Join(ws, s)
	}
	var ds []ref.Directive
	for i := 0; i < n; i++ {
		k := rapid.SampledFrom([]string{ref.KOpen, ref.KClose, ref.KPrice, ref.KTrx, ref.KTrx, ref.KTrx, ref.KAssert, ref.KAssert, ref.KInclude}).Draw(t, "kind")
		if k == ref.KInclude && !includes {
			k = ref.KTrx
		}
		d := ref.Directive{Kind: k, Date: date()}
		switch k {
		case ref.KOpen, ref.KClose:
			d.Account = account()
		case ref.KPrice:
			d.Com, d.Target, d.Price = com(), com(), qty()
		case ref.KInclude:
			d.Path = rapid.SampledFrom([]string{"a.knut", "sub/b.knut", "../c.knut", "", "with space.knut", "ü.knut"}).Draw(t, "path")
		case ref.KAssert:
			nb := rapid.SampledFrom([]int{1, 1, 2, 3}).Draw(t, "nb")
			for j := 0; j < nb; j++ {
				d.Balances = append(d.Balances, ref.Balance{Account: account(), Qty: qty(), Com: com()})
			}
		case ref.KTrx:
			d.Desc = desc()
			nb := rapid.SampledFrom([]int{1, 1, 2, 3, 5}).Draw(t, "nb")
			if minN >= 500 && Rare(t, "hugeTrx", 9) {
				nb = rapid.SampledFrom([]int{64, 65, 200, 1025, 1100}).Draw(t, "nbHuge")
			}
			for j := 0; j < nb; j++ {
				d.Bookings = append(d.Bookings, ref.Booking{Credit: account(), Debit: account(), Qty: qty(), Com: com()})
			}
			if rapid.IntRange(0, 3).Draw(t, "accr") == 0 {
				s := date()
				d.Accrual = &ref.Accrual{
					Interval: rapid.SampledFrom([]string{"daily", "weekly", "monthly", "quarterly"}).Draw(t, "iv"),
					Start:    s, End: s + ref.Day(rapid.IntRange(0, 400).Draw(t, "len")), Account: account(),
				}
			}
			if rapid.IntRange(0, 3).Draw(t, "perf") == 0 {
				d.HasPerf = true
				np := rapid.IntRange(0, 3).Draw(t, "np")
				for j := 0; j < np; j++ {
					d.Perf = append(d.Perf, com())
				}
			}
		}
		ds = append(ds, d)
	}
	return ds
}

// TokenSoup draws text made of grammar tokens in random order: closer to the
// parser's decision points than arbitrary bytes.
func TokenSoup(t *rapid.T) string {
	toks := []string{"2020-01-01", "2020-13-45", "open", "close", "balance", "price", "include", "\"", "\"desc\"", "Assets:A", "Expenses:B:C", "$macro", "CHF", "USD", "1", "-1.5", "1.", ".5", "-", "@accrue", "@performance", "(", ")", ",", "monthly", "daily", "yearly", "\n", "\n", "\n\n", " ", "\t", "\r\n", "#", "*", "//", "/", ":", "é", "\xff", "\x00", "１２", "٣"}
	n := rapid.IntRange(0, 40).Draw(t, "nTok")
	var b strings.Builder
	for i := 0; i < n; i++ {
		b.WriteString(rapid.SampledFrom(toks).Draw(t, "tok"))
		if rapid.Bool().Draw(t, "sp") {
			b.WriteString(" ")
		}
	}
	return b.String()
}

var _ = fmt.Sprintf
