// Package gen holds the rapid generators: journal histories (valid by
// construction), damage passes, layouts, include trees, flags, price graphs
// and byte-level mutation.
package gen

import (
	"fmt"
	"math/big"
	"sort"
	"strings"

	"pgregory.net/rapid"

	"verifharness/ref"
)

// HistCfg selects the features a generated history may use.
type HistCfg struct {
	MaxActions int
	Accruals   bool
	Perf       bool
	Assertions bool
	Closes     bool
	// Prices: 0 none, 1 forest over the commodities with initial prices for
	// every edge on the first day (every commodity priced in every other from
	// day one), 2 forest with possibly late/missing initial prices.
	Prices        int
	MaxDec        int  // max decimals of quantities (default 4, at most 8)
	WideDates     bool // allow 1900–2100 starts
	Unicode       bool
	MultiLineDesc bool
	// Large: a ledger of realistic size instead of a small example: 60-200 accounts (deep paths, long segment
	// names), 10-40 commodities, bursts of hundreds of directives on one day, 16+ bookings in a transaction,
	// quantities beyond 2^53. MaxActions is the caller's choice (300-1500).
	Large bool
}

var segPoolASCII = []string{"Bank", "Cash", "Broker", "Aktien", "A1", "Salary", "Food", "Rent", "Loan", "Card", "Opening", "Sub", "X", "Y2", "Deep", "B", "Assets", "AssetsPool", "Liabilities", "IncomeFund", "Equity"}
var segPoolUni = []string{"Börse", "口座", "Épargne", "Ärzte", "Ж1"}
var comPool = []string{"CHF", "USD", "EUR", "AAPL", "BTC", "X1", "Gold"}
var comPoolUni = []string{"Ä", "円"}
var typeNames = []string{"Assets", "Liabilities", "Equity", "Income", "Expenses"}

var descWords = []string{"Lunch", "rent", "Salary", "ACME", "buy", "sell", "fee", "Zürich", "No.", "12", "a-b", "x/y", "(ref)", "50%", "#tag", "@home", "*", "\ufffd", "口座"}

type acct struct {
	name      string
	open      bool
	openedOn  ref.Day
	lockUntil ref.Day
	accrual   bool // designated accrual account: never asserted or closed
	used      bool
}

// History is the generator state; after Run, J holds the journal.
type History struct {
	t    *rapid.T
	cfg  HistCfg
	accs []*acct
	coms []string
	pos  map[[2]string]*big.Rat
	day  ref.Day
	day0 ref.Day
	// phase of the current day: 0 free, 1 an assertion was emitted, 2 a close was emitted
	phase int
	ds    []ref.Directive
	// price forest: parent[i] is the index of the parent commodity of coms[i] (-1 for root)
	parent      []int
	priced      map[[3]string]bool    // (day, a, b) with a<b: a price for the pair was declared that day
	never       map[int]bool          // Prices == 2: edges that are never declared
	lastPrice   map[int]ref.Directive // last declaration per edge
	lastAccrual *ref.Accrual
	leapt       bool
	descN       int
}

// GenJournal draws an accepted journal (by construction, per the statement of C04).
func GenJournal(t *rapid.T, cfg HistCfg) ref.Journal {
	h := newHistory(t, cfg)
	h.run()
	return h.journal()
}

func newHistory(t *rapid.T, cfg HistCfg) *History {
	if cfg.MaxActions == 0 {
		cfg.MaxActions = 25
	}
	if cfg.MaxDec == 0 {
		cfg.MaxDec = 4
	}
	h := &History{t: t, cfg: cfg, pos: map[[2]string]*big.Rat{}, priced: map[[3]string]bool{}}
	h.drawUniverse()
	return h
}

func (h *History) journal() ref.Journal {
	j := ref.Journal{Directives: h.ds, Commodities: h.coms}
	for _, a := range h.accs {
		j.Accounts = append(j.Accounts, a.name)
	}
	return j
}

func (h *History) drawUniverse() {
	t := h.t
	pool := segPoolASCII
	cpool := comPool
	if h.cfg.Unicode {
		pool = append(append([]string{}, segPoolASCII...), segPoolUni...)
		cpool = append(append([]string{}, comPool...), comPoolUni...)
	}
	nAcc := rapid.IntRange(3, 9).Draw(t, "nAcc")
	if h.cfg.Large {
		nAcc = rapid.IntRange(60, 200).Draw(t, "nAccLarge")
		pool = append([]string{}, pool...)
		for i := 0; i < 40; i++ {
			pool = append(pool, fmt.Sprintf("K%03d", i))
		}
		pool = append(pool, "Sammelkonto"+strings.Repeat("Lang", 12), strings.Repeat("W", 70))
		cpool = append([]string{}, cpool...)
		for i := 0; i < 40; i++ {
			cpool = append(cpool, fmt.Sprintf("Q%02d", i))
		}
		// names longer than a machine word that agree in their first bytes
		cpool = append(cpool, "VANGUARDFTSE01", "VANGUARDFTSE02", "VANGUARDSP500", "VANGUARDSP500X")
		pool = append(pool, "Sammelkonto"+strings.Repeat("Lang", 12)+"B", "Sammelkonto"+strings.Repeat("Lang", 12)+"A")
	}
	seen := map[string]bool{}
	add := func(name string, accrual bool) {
		if seen[name] {
			return
		}
		seen[name] = true
		h.accs = append(h.accs, &acct{name: name, accrual: accrual})
	}
	// always: one asset, one I/E, one equity, so that bookings of every kind exist
	add("Assets:"+rapid.SampledFrom(pool).Draw(t, "seg"), false)
	add(rapid.SampledFrom([]string{"Income:", "Expenses:"}).Draw(t, "ie")+rapid.SampledFrom(pool).Draw(t, "seg"), false)
	if rapid.IntRange(0, 2).Draw(t, "eqeq") == 0 {
		add("Equity:Equity", false)
	} else {
		add("Equity:"+rapid.SampledFrom(pool).Draw(t, "seg"), false)
	}
	for len(h.accs) < nAcc {
		typ := rapid.SampledFrom(typeNames).Draw(t, "type")
		depth := rapid.SampledFrom([]int{1, 1, 1, 2, 2, 3}).Draw(t, "depth")
		if h.cfg.Large && rapid.IntRange(0, 9).Draw(t, "deepPath") == 0 {
			depth = rapid.IntRange(4, 9).Draw(t, "depthLarge")
		}
		var segs []string
		// sometimes extend an existing account of the same type (prefix relationships)
		if rapid.IntRange(0, 3).Draw(t, "ext") == 0 {
			var cands []string
			for _, a := range h.accs {
				if ref.AccountType(a.name) == typ {
					cands = append(cands, a.name)
				}
			}
			if len(cands) > 0 {
				base := rapid.SampledFrom(cands).Draw(t, "base")
				add(base+":"+rapid.SampledFrom(pool).Draw(t, "seg"), false)
				continue
			}
		}
		for i := 0; i < depth; i++ {
			segs = append(segs, rapid.SampledFrom(pool).Draw(t, "seg"))
		}
		name := typ + ":" + strings.Join(segs, ":")
		// mirror of an asset path on the income side (the valuation account shape)
		if typ == "Income" && rapid.IntRange(0, 2).Draw(t, "mirror") == 0 {
			for _, a := range h.accs {
				if strings.HasPrefix(a.name, "Assets:") {
					name = "Income:" + strings.TrimPrefix(a.name, "Assets:")
					break
				}
			}
		}
		add(name, false)
	}
	if rapid.IntRange(0, 5).Draw(t, "caseVariant") == 0 {
		// a sibling whose name differs only in letter case (Coop / COOP)
		base := h.accs[rapid.IntRange(0, len(h.accs)-1).Draw(t, "caseVariantOf")].name
		if i := strings.LastIndex(base, ":"); i > 0 {
			seg := base[i+1:]
			v := strings.ToUpper(seg)
			if v == seg {
				v = strings.ToLower(seg)
			}
			if v != seg {
				add(base[:i+1]+v, false)
			}
		}
	}
	if h.cfg.Accruals {
		add(rapid.SampledFrom([]string{"Assets:Accrual", "Liabilities:Accrued", "Equity:Accrual"}).Draw(t, "accrualAcc"), true)
	}
	nCom := rapid.IntRange(1, 4).Draw(t, "nCom")
	if h.cfg.Large {
		nCom = rapid.IntRange(10, 40).Draw(t, "nComLarge")
	}
	perm := rapid.Permutation(cpool).Draw(t, "coms")
	h.coms = append([]string{}, perm[:nCom]...)
	h.parent = make([]int, nCom)
	h.parent[0] = -1
	for i := 1; i < nCom; i++ {
		h.parent[i] = rapid.IntRange(0, i-1).Draw(t, "parent")
	}
	if h.cfg.WideDates && rapid.IntRange(0, 4).Draw(t, "wide") == 0 {
		y := rapid.IntRange(1900, 2100).Draw(t, "year")
		h.day0 = ref.FromCivil(y, rapid.IntRange(1, 12).Draw(t, "month"), rapid.IntRange(1, 28).Draw(t, "dom"))
	} else {
		y := rapid.IntRange(2018, 2024).Draw(t, "year")
		m := rapid.IntRange(1, 12).Draw(t, "month")
		dom := rapid.SampledFrom([]int{1, 1, 2, 15, 27, 28, ref.DaysIn(y, m)}).Draw(t, "dom")
		h.day0 = ref.FromCivil(y, m, dom)
	}
	h.day = h.day0
}

// DrawQty draws a decimal string with up to maxDec decimals; sometimes
// negative, zero, with trailing or leading zeros.
func DrawQty(t *rapid.T, maxDec int, allowNeg bool) string {
	kind := rapid.IntRange(0, 19).Draw(t, "qkind")
	switch {
	case kind == 0:
		return rapid.SampledFrom([]string{"0", "0.0", "0.00", "-0"}).Draw(t, "zero")
	case kind == 1:
		// large
		return fmt.Sprintf("%d", rapid.Int64Range(1_000_000, 999_999_999_999).Draw(t, "big"))
	case kind == 6 && maxDec >= 9:
		// dust: below the 8th decimal
		s := fmt.Sprintf("0.%0*d", maxDec, rapid.IntRange(1, 9999).Draw(t, "dust"))
		if allowNeg && rapid.Bool().Draw(t, "dustNeg") {
			s = "-" + s
		}
		return s
	}
	dec := rapid.SampledFrom([]int{0, 0, 1, 2, 2, 2, 3, maxDec, maxDec}).Draw(t, "dec")
	if dec > maxDec {
		dec = maxDec
	}
	ip := rapid.SampledFrom([]int64{9, 99, 999, 99999}).Draw(t, "imax")
	i := rapid.Int64Range(0, ip).Draw(t, "int")
	s := fmt.Sprintf("%d", i)
	if dec > 0 {
		f := rapid.Int64Range(0, pow10i(dec)-1).Draw(t, "frac")
		s += fmt.Sprintf(".%0*d", dec, f)
	}
	if kind == 2 {
		s = "00" + s
	}
	if allowNeg && kind >= 3 && kind <= 5 {
		s = "-" + s
	}
	return s
}

func pow10i(n int) int64 {
	r := int64(1)
	for i := 0; i < n; i++ {
		r *= 10
	}
	return r
}

func (h *History) openAccs(pred func(*acct) bool) []*acct {
	var res []*acct
	for _, a := range h.accs {
		if a.open && (pred == nil || pred(a)) {
			res = append(res, a)
		}
	}
	return res
}

func pick[T any](t *rapid.T, xs []T, label string) T {
	return xs[rapid.IntRange(0, len(xs)-1).Draw(t, label)]
}

// pickTwo draws credit and debit accounts: different ones except in a rare
// self-booking case.
func (h *History) pickTwo(open []*acct) (*acct, *acct) {
	t := h.t
	i := rapid.IntRange(0, len(open)-1).Draw(t, "credit")
	if len(open) == 1 || rapid.IntRange(0, 24).Draw(t, "selfBooking") == 0 {
		return open[i], open[i]
	}
	k := rapid.IntRange(0, len(open)-2).Draw(t, "debit")
	if k >= i {
		k++
	}
	return open[i], open[k]
}

func (h *History) advance(min int) {
	t := h.t
	k := rapid.SampledFrom([]int{0, 0, 0, 1, 1, 2, 7, 20, 31, 45, -1, -1}).Draw(t, "dt")
	if h.cfg.WideDates && !h.leapt && Rare(t, "centuryLeap", 6) {
		// once per journal at most: a jump of centuries (dates beyond 2262 overflow int64 nanoseconds)
		k = rapid.SampledFrom([]int{40000, 100000, 150000}).Draw(t, "centuryLeapDays")
		h.leapt = true
	}
	var nd ref.Day
	if k == -1 {
		// jump to the next month end / quarter end / year end
		iv := rapid.SampledFrom([]ref.Interval{ref.Monthly, ref.Monthly, ref.Quarterly, ref.Yearly, ref.Weekly}).Draw(t, "jump")
		nd = ref.UnitEnd(h.day, iv)
		if rapid.Bool().Draw(t, "after") {
			nd++
		}
		if nd < h.day+ref.Day(min) {
			nd = h.day + ref.Day(min)
		}
	} else {
		if k < min {
			k = min
		}
		nd = h.day + ref.Day(k)
	}
	if nd != h.day {
		h.day = nd
		h.phase = 0
	}
}

// need makes sure the current day accepts a directive of the given phase.
func (h *History) need(phase int) {
	if h.phase > phase {
		h.day++
		h.phase = 0
	}
	if phase > h.phase {
		h.phase = phase
	}
}

func (h *History) desc() string {
	t := h.t
	n := rapid.IntRange(0, 3).Draw(t, "nwords")
	var ws []string
	for i := 0; i < n; i++ {
		ws = append(ws, rapid.SampledFrom(descWords).Draw(t, "word"))
	}
	h.descN++
	ws = append(ws, fmt.Sprintf("t%d", h.descN))
	sep := " "
	if h.cfg.MultiLineDesc && rapid.IntRange(0, 5).Draw(t, "mld") == 0 {
		// a line break, sometimes with blanks before or after it
		sep = rapid.SampledFrom([]string{"\n", "\n", "\n", " \n", "\t\n", "\n ", "  \n"}).Draw(t, "mldSep")
	}
	return strings.Join(ws, sep)
}

func (h *History) emitOpen(a *acct) {
	h.need(0)
	a.open = true
	a.openedOn = h.day
	if a.lockUntil < h.day {
		a.lockUntil = h.day
	}
	h.ds = append(h.ds, ref.Directive{Kind: ref.KOpen, Date: h.day, Account: a.name})
}

func (h *History) addPos(acc, com string, x *big.Rat) {
	if !ref.IsAL(acc) {
		return
	}
	k := [2]string{acc, com}
	if h.pos[k] == nil {
		h.pos[k] = new(big.Rat)
	}
	h.pos[k].Add(h.pos[k], x)
}

func (h *History) book(bs []ref.Booking, d ref.Directive) {
	for _, b := range bs {
		q := ref.R(b.Qty)
		h.addPos(b.Credit, b.Com, ref.Neg(q))
		h.addPos(b.Debit, b.Com, q)
	}
	d.Kind = ref.KTrx
	d.Date = h.day
	d.Bookings = bs
	if d.Desc == "" {
		d.Desc = h.desc()
	}
	h.ds = append(h.ds, d)
}

func (h *History) drawPerf(d *ref.Directive) {
	if !h.cfg.Perf {
		return
	}
	t := h.t
	if rapid.IntRange(0, 4).Draw(t, "perf") != 0 {
		return
	}
	d.HasPerf = true
	n := rapid.IntRange(0, 2).Draw(t, "nperf")
	for i := 0; i < n; i++ {
		d.Perf = append(d.Perf, pick(t, h.coms, "perfcom"))
	}
}

func (h *History) edgeIdx() []int {
	var idx []int
	for i := 1; i < len(h.coms); i++ {
		idx = append(idx, i)
	}
	return idx
}

func (h *History) pairKey(a, b string) [3]string {
	if a > b {
		a, b = b, a
	}
	return [3]string{h.day.String(), a, b}
}

// DrawPrice draws a positive price string between 1e-4 and 1e5 with up to 6 decimals.
func DrawPrice(t *rapid.T) string {
	switch rapid.IntRange(0, 5).Draw(t, "pkind") {
	case 0:
		return fmt.Sprintf("%d", rapid.IntRange(1, 50000).Draw(t, "pint"))
	case 1:
		return fmt.Sprintf("0.%06d", rapid.IntRange(100, 999999).Draw(t, "psmall"))
	case 2:
		return rapid.SampledFrom([]string{"1", "1.0", "0.5", "2", "3", "0.9", "1.1", "0.33333333", "1.25"}).Draw(t, "pfix")
	}
	return fmt.Sprintf("%d.%0*d", rapid.IntRange(0, 999).Draw(t, "pi"), 4, rapid.IntRange(1, 9999).Draw(t, "pf"))
}

// Reciprocal8 is 1/p cut off after 8 decimals ("" when p is not a positive number or the result is 0).
func Reciprocal8(p string) string {
	r, ok := new(big.Rat).SetString(p)
	if !ok || r.Sign() <= 0 {
		return ""
	}
	q := new(big.Int).Quo(new(big.Int).Mul(big.NewInt(100000000), r.Denom()), r.Num())
	if q.Sign() == 0 {
		return ""
	}
	s := fmt.Sprintf("%09d", q)
	out := strings.TrimRight(s[:len(s)-8]+"."+s[len(s)-8:], "0")
	return strings.TrimSuffix(out, ".")
}

func (h *History) emitPrice(i int) {
	// declare the edge between coms[i] and its parent, in either direction
	if h.parent[i] < 0 || h.never[i] {
		return
	}
	t := h.t
	h.need(0)
	c, p := h.coms[i], h.coms[h.parent[i]]
	key := h.pairKey(c, p)
	if h.priced[key] {
		return // one price per pair and day (same-day redeclarations are excluded by C05's statement)
	}
	h.priced[key] = true
	d := ref.Directive{Kind: ref.KPrice, Date: h.day, Com: c, Target: p, Price: DrawPrice(t)}
	if rapid.IntRange(0, 3).Draw(t, "inverse") == 0 {
		d.Com, d.Target = p, c
	}
	if last, ok := h.lastPrice[i]; ok && rapid.IntRange(0, 2).Draw(t, "repeatQuote") == 0 {
		// the same quote again (holiday carry-over, pegged currency)
		d.Com, d.Target, d.Price = last.Com, last.Target, last.Price
	}
	if last, ok := h.lastPrice[i]; ok && rapid.IntRange(0, 3).Draw(t, "reciprocalQuote") == 0 {
		// the pair quoted the other way round at exactly the 8-digit reciprocal of the last quote (a user copying
		// the inverse rate their bank prints): the stored inverse edge keeps its value while the direct one moves
		if r := Reciprocal8(last.Price); r != "" {
			d.Com, d.Target, d.Price = last.Target, last.Com, r
		}
	}
	if h.lastPrice == nil {
		h.lastPrice = map[int]ref.Directive{}
	}
	h.lastPrice[i] = d
	h.ds = append(h.ds, d)
}

func (h *History) run() {
	t := h.t
	cfg := h.cfg
	// initial prices
	if cfg.Prices == 1 {
		for i := range h.coms {
			h.emitPrice(i)
		}
	}
	if cfg.Prices == 2 {
		// some edges are declared on time, some only later (by a price action), some never
		h.never = map[int]bool{}
		for i := range h.coms {
			switch rapid.SampledFrom([]int{0, 0, 0, 1, 2}).Draw(t, "priceAvail") {
			case 0:
				h.emitPrice(i)
			case 2:
				h.never[i] = true
			}
		}
	}
	// open two accounts to start with
	lo := 4
	if lo > cfg.MaxActions {
		lo = cfg.MaxActions
	}
	if cfg.Large {
		lo = cfg.MaxActions / 2
		// the header of a real ledger: most accounts are opened up front
		for _, a := range h.accs {
			if !a.open && !a.accrual && rapid.IntRange(0, 4).Draw(t, "openUpFront") != 0 {
				h.emitOpen(a)
			}
		}
	}
	n := rapid.IntRange(lo, cfg.MaxActions).Draw(t, "nActions")
	acts := []int{0, 0, 1, 1, 1, 1, 1, 2, 2, 3, 4, 4, 5, 6, 6, 7}
	if cfg.Prices > 0 {
		acts = append(acts, 4, 4, 4, 1)
	}
	burst, cloneBurst := 0, false
	massClosed := false
	for step := 0; step < n; step++ {
		if cfg.Large && burst == 0 && Rare(t, "burst", 7) {
			// hundreds of directives on one day (a month-end batch import)
			burst = rapid.SampledFrom([]int{200, 400, 700, 1200}).Draw(t, "burstLen")
			cloneBurst = rapid.IntRange(0, 2).Draw(t, "cloneBurst") == 0
		}
		if burst > 0 && cloneBurst {
			// hundreds of identical entries on one day (fares, micro-payments) that differ at most in their annotations:
			// one long run of equal keys for every sort of the day's transactions
			if n := len(h.ds); n > 0 && h.ds[n-1].Kind == ref.KTrx && h.ds[n-1].Date == h.day && h.ds[n-1].Accrual == nil {
				burst--
				prev := h.ds[n-1]
				d := ref.Directive{Desc: prev.Desc}
				if cfg.Perf && rapid.Bool().Draw(t, "clonePerf") {
					d.HasPerf = true
					if rapid.Bool().Draw(t, "clonePerfCom") {
						d.Perf = []string{pick(t, h.coms, "clonePerfV")}
					}
				}
				h.book(append([]ref.Booking{}, prev.Bookings...), d)
				continue
			}
		}
		if burst > 0 {
			burst--
			h.step(rapid.SampledFrom([]int{0, 1, 1, 1, 1, 1, 1, 6, 4, 3, 3, 7}).Draw(t, "burstAct"))
			continue
		}
		h.advance(0)
		if cfg.Large && cfg.Closes && !massClosed && step > n/4 && Rare(t, "massCloseDay", 5) {
			massClosed = true
			h.step(8)
			continue
		}
		h.step(rapid.SampledFrom(acts).Draw(t, "act"))
	}
}

func (h *History) step(act int) {
	t := h.t
	cfg := h.cfg
	open := h.openAccs(nil)
	switch act {
	case 0: // open
		var closed []*acct
		for _, a := range h.accs {
			if !a.open {
				closed = append(closed, a)
			}
		}
		if len(closed) == 0 {
			h.step(1)
			return
		}
		h.emitOpen(pick(t, closed, "openWhich"))
	case 1, 6: // booking(s)
		if len(open) < 2 {
			h.step(0)
			return
		}
		nb := 1
		if act == 6 {
			nb = rapid.IntRange(2, 4).Draw(t, "nBookings")
			if cfg.Large && rapid.IntRange(0, 9).Draw(t, "manyBookings") == 0 {
				nb = rapid.IntRange(16, 40).Draw(t, "nBookingsLarge")
			}
		}
		h.need(0)
		var bs []ref.Booking
		for i := 0; i < nb; i++ {
			cr, dr := h.pickTwo(open)
			cr.used, dr.used = true, true
			q := DrawQty(t, cfg.MaxDec, true)
			if cfg.Large && rapid.IntRange(0, 19).Draw(t, "hugeQty") == 0 {
				q = rapid.SampledFrom([]string{"2147483648", "4294967296.5", "9007199254740993", "18446744073709551617", "123456789012345678.12"}).Draw(t, "hugeQtyV")
			}
			bs = append(bs, ref.Booking{Credit: cr.name, Debit: dr.name, Qty: q, Com: pick(t, h.coms, "com")})
		}
		var d ref.Directive
		h.drawPerf(&d)
		// sometimes a twin of the previous transaction of the same day: same description, its bookings as a prefix
		if n := len(h.ds); n > 0 && h.ds[n-1].Kind == ref.KTrx && h.ds[n-1].Date == h.day && h.ds[n-1].Accrual == nil &&
			rapid.IntRange(0, 7).Draw(t, "twin") == 0 {
			prev := h.ds[n-1]
			d.Desc = prev.Desc
			if h.cfg.MultiLineDesc && rapid.IntRange(0, 2).Draw(t, "twinLines") == 0 {
				// two-line descriptions with a common first line, one of them with a blank before the line break,
				// whose second lines order the other way round than the blank and the line break do
				first := rapid.SampledFrom(descWords).Draw(t, "twinFirst")
				x, y := "Aa", "Bb"
				if rapid.Bool().Draw(t, "twinSwap") {
					x, y = y, x
				}
				h.ds[n-1].Desc = first + rapid.SampledFrom([]string{" ", "\t", "  "}).Draw(t, "twinBlank") + "\n" + x + " " + prev.Desc
				d.Desc = first + "\n" + y + " " + prev.Desc
			}
			switch rapid.IntRange(0, 2).Draw(t, "twinKind") {
			case 0:
				bs = append(append([]ref.Booking{}, prev.Bookings...), bs...)
			case 1:
				// an exact copy that can differ only in what follows the bookings in no ordering: its annotations
				bs = append([]ref.Booking{}, prev.Bookings...)
			}
		}
		h.book(bs, d)
	case 2: // assertion
		if !cfg.Assertions {
			h.step(1)
			return
		}
		cands := h.openAccs(func(a *acct) bool { return ref.IsAL(a.name) && !a.accrual })
		if len(cands) == 0 {
			h.step(0)
			return
		}
		h.need(1)
		nbal := rapid.SampledFrom([]int{1, 1, 1, 2, 3}).Draw(t, "nBal")
		var bals []ref.Balance
		for i := 0; i < nbal; i++ {
			a := pick(t, cands, "assertAcc")
			c := pick(t, h.coms, "assertCom")
			have := h.pos[[2]string{a.name, c}]
			if have == nil {
				have = new(big.Rat)
			}
			q := ref.DecString(have)
			if rapid.IntRange(0, 5).Draw(t, "trail") == 0 && !strings.Contains(q, ".") {
				q += ".00"
			}
			bals = append(bals, ref.Balance{Account: a.name, Qty: q, Com: c})
		}
		h.ds = append(h.ds, ref.Directive{Kind: ref.KAssert, Date: h.day, Balances: bals})
	case 8: // a year-end clean-up: dozens of unused accounts closed on one day
		var cands []*acct
		for _, a := range h.openAccs(nil) {
			if a.accrual || a.lockUntil > h.day {
				continue
			}
			zero := true
			for k, v := range h.pos {
				if k[0] == a.name && v.Sign() != 0 {
					zero = false
					break
				}
			}
			if zero {
				cands = append(cands, a)
			}
		}
		if len(cands) < 36 {
			h.step(1)
			return
		}
		h.need(2)
		k := rapid.IntRange(33, len(cands)-2).Draw(t, "massClose")
		for _, a := range cands[:k] {
			a.open = false
			for key := range h.pos {
				if key[0] == a.name {
					delete(h.pos, key)
				}
			}
			h.ds = append(h.ds, ref.Directive{Kind: ref.KClose, Date: h.day, Account: a.name})
		}
	case 3: // close an account whose positions are zero
		if !cfg.Closes {
			h.step(1)
			return
		}
		cands := h.openAccs(func(a *acct) bool {
			if a.accrual || a.lockUntil > h.day {
				return false
			}
			for k, v := range h.pos {
				if k[0] == a.name && v.Sign() != 0 {
					return false
				}
			}
			return true
		})
		if len(cands) == 0 {
			h.step(7)
			return
		}
		a := pick(t, cands, "closeWhich")
		if a.lockUntil > h.day {
			h.day = a.lockUntil
			h.phase = 0
		}
		h.need(2)
		a.open = false
		for k := range h.pos {
			if k[0] == a.name {
				delete(h.pos, k)
			}
		}
		h.ds = append(h.ds, ref.Directive{Kind: ref.KClose, Date: h.day, Account: a.name})
	case 4: // price change: one edge, or a batch of quotes for several edges on one day
		if cfg.Prices == 0 || len(h.coms) < 2 {
			h.step(1)
			return
		}
		if len(h.coms) > 2 && rapid.IntRange(0, 2).Draw(t, "priceBatch") == 0 {
			for _, i := range rapid.Permutation(h.edgeIdx()).Draw(t, "batchOrder") {
				if rapid.IntRange(0, 3).Draw(t, "batchSkip") != 0 {
					h.emitPrice(i)
				}
			}
			return
		}
		h.emitPrice(rapid.IntRange(1, len(h.coms)-1).Draw(t, "priceWhich"))
	case 5: // accrual
		if !cfg.Accruals {
			h.step(6)
			return
		}
		var accr *acct
		for _, a := range h.accs {
			if a.accrual {
				accr = a
			}
		}
		if accr == nil {
			h.step(1)
			return
		}
		if !accr.open {
			h.emitOpen(accr)
			return
		}
		if len(open) < 2 {
			h.step(0)
			return
		}
		h.need(0)
		nb := rapid.SampledFrom([]int{1, 1, 2}).Draw(t, "nAccrBookings")
		var bs []ref.Booking
		lo := accr.openedOn
		var involved []*acct
		for i := 0; i < nb; i++ {
			cr, dr := h.pickTwo(open)
			for _, a := range []*acct{cr, dr} {
				involved = append(involved, a)
				if a.openedOn > lo {
					lo = a.openedOn
				}
			}
			bs = append(bs, ref.Booking{Credit: cr.name, Debit: dr.name, Qty: DrawQty(t, cfg.MaxDec, true), Com: pick(t, h.coms, "com")})
		}
		if lo < h.day0 {
			lo = h.day0
		}
		// window: starts at or after every involved open date; may lie before, around or after the booking date
		start := lo + ref.Day(rapid.IntRange(0, 60).Draw(t, "accStart"))
		length := rapid.SampledFrom([]int{0, 1, 6, 27, 30, 31, 59, 89, 100, 364, 365, 400}).Draw(t, "accLen")
		end := start + ref.Day(length)
		iv := rapid.SampledFrom([]string{"daily", "weekly", "monthly", "monthly", "quarterly"}).Draw(t, "accIv")
		if iv == "daily" && length > 40 {
			iv = "weekly"
		}
		if h.lastAccrual != nil && h.lastAccrual.Start >= lo && rapid.IntRange(0, 1).Draw(t, "sameWindow") == 0 {
			// the same window as an earlier accrual, with another interval
			start, end = h.lastAccrual.Start, h.lastAccrual.End
			for _, cand := range []string{"monthly", "quarterly", "weekly"} {
				if cand != h.lastAccrual.Interval {
					iv = cand
					break
				}
			}
			if iv == "weekly" && end-start > 400 {
				iv = "quarterly"
			}
		}
		for _, a := range append(involved, accr) {
			if a.lockUntil < end {
				a.lockUntil = end
			}
		}
		d := ref.Directive{Accrual: &ref.Accrual{Interval: iv, Start: start, End: end, Account: accr.name}}
		h.lastAccrual = d.Accrual
		h.drawPerf(&d)
		// positions: non-I/E halves hit the account on the booking date; the accrual account gets the counter-entries
		d.Kind, d.Date, d.Bookings, d.Desc = ref.KTrx, h.day, bs, h.desc()
		ts, _ := ref.Expand(d, 0)
		for _, tr := range ts {
			for _, hf := range tr.Halves() {
				h.addPos(hf.Account, hf.Com, hf.Qty)
			}
		}
		h.ds = append(h.ds, d)
	case 7: // settle: move a whole position away so that the account can be closed later
		var keys [][2]string
		for k, v := range h.pos {
			if v.Sign() != 0 {
				keys = append(keys, k)
			}
		}
		if len(keys) == 0 || len(open) < 2 {
			h.step(1)
			return
		}
		sort.Slice(keys, func(i, j int) bool { return keys[i][0]+"|"+keys[i][1] < keys[j][0]+"|"+keys[j][1] })
		k := pick(t, keys, "settleWhich")
		var src *acct
		for _, a := range h.accs {
			if a.name == k[0] {
				src = a
			}
		}
		if src == nil || !src.open || src.accrual {
			h.step(1)
			return
		}
		other := pick(t, open, "settleTo")
		if other == src {
			h.step(1)
			return
		}
		h.need(0)
		q := ref.DecString(h.pos[k])
		h.book([]ref.Booking{{Credit: src.name, Debit: other.name, Qty: q, Com: k[1]}}, ref.Directive{})
		// often the emptied account is closed on the very day of the disposal
		if cfg.Closes && !src.accrual && src.lockUntil <= h.day && rapid.IntRange(0, 2).Draw(t, "closeSameDay") == 0 {
			empty := true
			for pk, v := range h.pos {
				if pk[0] == src.name && v.Sign() != 0 {
					empty = false
				}
			}
			if empty {
				h.need(2)
				src.open = false
				for pk := range h.pos {
					if pk[0] == src.name {
						delete(h.pos, pk)
					}
				}
				h.ds = append(h.ds, ref.Directive{Kind: ref.KClose, Date: h.day, Account: src.name})
			}
		}
	}
}

// MaybeLarge turns one case in 2^k into a ledger of realistic size (see HistCfg.Large).
func MaybeLarge(t *rapid.T, cfg *HistCfg, oneIn int) bool {
	if !Rare(t, "largeLedger", oneIn) {
		return false
	}
	cfg.Large = true
	cfg.MaxActions = rapid.SampledFrom([]int{400, 800, 1600, 2400}).Draw(t, "largeActions")
	return true
}

// Rare is true with probability 2^-k. rapid's integer generators favour the ends of their range
// (IntRange(0, n).Draw == 0 holds in about one case in ten however large n is), so events meant to be rare are
// drawn as a conjunction of k fair coins; shrinking turns them off.
func Rare(t *rapid.T, label string, k int) bool {
	for i := 0; i < k; i++ {
		if !rapid.Bool().Draw(t, label) {
			return false
		}
	}
	return true
}
