package gen

import (
	"pgregory.net/rapid"

	"verifharness/ref"
)

// Damage applies n drawn edits to an accepted journal that may or may not
// break account lifecycle or assertions; the reference model decides. It
// returns the labels of the edits applied.
func Damage(t *rapid.T, j *ref.Journal, n int) []string {
	var labels []string
	for i := 0; i < n; i++ {
		labels = append(labels, damageOnce(t, j))
	}
	return labels
}

func indices(ds []ref.Directive, kind string) []int {
	var res []int
	for i, d := range ds {
		if d.Kind == kind {
			res = append(res, i)
		}
	}
	return res
}

func insertAt(ds []ref.Directive, i int, d ref.Directive) []ref.Directive {
	ds = append(ds, ref.Directive{})
	copy(ds[i+1:], ds[i:])
	ds[i] = d
	return ds
}

func damageOnce(t *rapid.T, j *ref.Journal) string {
	ds := j.Directives
	if len(ds) == 0 || len(j.Accounts) == 0 || len(j.Commodities) == 0 {
		return "none"
	}
	lo, hi, _ := j.Span()
	anyDate := func() ref.Day {
		// a date of an existing directive, ±1 day, or anywhere in the span
		switch rapid.IntRange(0, 3).Draw(t, "dateKind") {
		case 0:
			return lo + ref.Day(rapid.IntRange(-2, int(hi-lo)+2).Draw(t, "dateOff"))
		default:
			d := ds[rapid.IntRange(0, len(ds)-1).Draw(t, "dateOf")].Date
			return d + ref.Day(rapid.IntRange(-1, 1).Draw(t, "dateShift"))
		}
	}
	pos := func() int { return rapid.IntRange(0, len(ds)).Draw(t, "insertPos") }
	acc := func() string { return rapid.SampledFrom(j.Accounts).Draw(t, "dAcc") }
	com := func() string { return rapid.SampledFrom(j.Commodities).Draw(t, "dCom") }
	kind := rapid.IntRange(0, 13).Draw(t, "damage")
	switch kind {
	case 0: // drop an open
		if idx := indices(ds, ref.KOpen); len(idx) > 0 {
			i := idx[rapid.IntRange(0, len(idx)-1).Draw(t, "which")]
			j.Directives = append(ds[:i:i], ds[i+1:]...)
			return "drop-open"
		}
	case 1: // duplicate an open at some date
		if idx := indices(ds, ref.KOpen); len(idx) > 0 {
			i := idx[rapid.IntRange(0, len(idx)-1).Draw(t, "which")]
			d := ds[i]
			if rapid.Bool().Draw(t, "redate") {
				d.Date = anyDate()
			}
			j.Directives = insertAt(ds, pos(), d)
			return "dup-open"
		}
	case 2: // extra booking at an arbitrary date between arbitrary accounts
		d := ref.Directive{Kind: ref.KTrx, Date: anyDate(), Desc: "damage booking",
			Bookings: []ref.Booking{{Credit: acc(), Debit: acc(), Qty: DrawQty(t, 2, true), Com: com()}}}
		j.Directives = insertAt(ds, pos(), d)
		return "extra-booking"
	case 3: // extra close at an arbitrary date
		j.Directives = insertAt(ds, pos(), ref.Directive{Kind: ref.KClose, Date: anyDate(), Account: acc()})
		return "extra-close"
	case 4: // assertion off by a small amount
		if idx := indices(ds, ref.KAssert); len(idx) > 0 {
			i := idx[rapid.IntRange(0, len(idx)-1).Draw(t, "which")]
			d := ds[i]
			bals := append([]ref.Balance{}, d.Balances...)
			k := rapid.IntRange(0, len(bals)-1).Draw(t, "whichBal")
			eps := rapid.SampledFrom([]string{"0.01", "-0.01", "1", "0.00000001", "-1"}).Draw(t, "eps")
			bals[k].Qty = ref.DecString(ref.Add(ref.R(bals[k].Qty), ref.R(eps)))
			d.Balances = bals
			j.Directives[i] = d
			return "assert-off"
		}
	case 5: // extra assertion with an arbitrary quantity (often zero) at an arbitrary date
		q := rapid.SampledFrom([]string{"0", "0", "0.00", "1", "-5", "100"}).Draw(t, "aq")
		j.Directives = insertAt(ds, pos(), ref.Directive{Kind: ref.KAssert, Date: anyDate(), Balances: []ref.Balance{{Account: acc(), Qty: q, Com: com()}}})
		return "extra-assert"
	case 6: // assertion on a commodity nothing was ever booked in
		q := rapid.SampledFrom([]string{"0", "0", "0.0", "1"}).Draw(t, "aq")
		j.Directives = insertAt(ds, pos(), ref.Directive{Kind: ref.KAssert, Date: anyDate(), Balances: []ref.Balance{{Account: acc(), Qty: q, Com: "NEVER"}}})
		return "assert-unused-commodity"
	case 7: // move a directive by one day
		i := rapid.IntRange(0, len(ds)-1).Draw(t, "which")
		d := ds[i]
		d.Date += ref.Day(rapid.SampledFrom([]int{-1, 1}).Draw(t, "shift"))
		if d.Accrual != nil {
			return "none"
		}
		j.Directives[i] = d
		return "shift-day"
	case 8: // drop a close, or re-open without close
		if idx := indices(ds, ref.KClose); len(idx) > 0 {
			i := idx[rapid.IntRange(0, len(idx)-1).Draw(t, "which")]
			j.Directives = append(ds[:i:i], ds[i+1:]...)
			return "drop-close"
		}
	case 10: // close an account whose positions in two commodities cancel numerically (+x A, -x B)
		var al []string
		for _, a := range j.Accounts {
			if ref.IsAL(a) {
				al = append(al, a)
			}
		}
		if len(al) > 0 && len(j.Commodities) >= 2 {
			a := rapid.SampledFrom(al).Draw(t, "cancelAcc")
			other := acc()
			q := DrawQty(t, 2, false)
			day := hi + 1
			j.Directives = append(j.Directives,
				ref.Directive{Kind: ref.KTrx, Date: day, Desc: "cancelling positions", Bookings: []ref.Booking{
					{Credit: other, Debit: a, Qty: q, Com: j.Commodities[0]},
					{Credit: a, Debit: other, Qty: q, Com: j.Commodities[1]}}},
				ref.Directive{Kind: ref.KClose, Date: day + ref.Day(rapid.IntRange(0, 2).Draw(t, "cancelCloseOff")), Account: a})
			return "close-cancelling-positions"
		}
	case 11: // a self-contained life cycle appended after the journal: open, book, zero, close, re-open, book again, close
		// (accepted iff the second close finds zero positions; the commodity of the second round is the one held before or another)
		a, src := "Assets:Reopened", "Equity:ReopenSrc"
		if rapid.Bool().Draw(t, "reopenLiab") {
			a = "Liabilities:Reopened"
		}
		for _, x := range j.Accounts {
			if x == a || x == src {
				return "none"
			}
		}
		c1 := com()
		c2 := c1
		if rapid.IntRange(0, 2).Draw(t, "reopenOtherCom") == 0 {
			c2 = com()
		}
		q1, q2 := DrawQty(t, 2, false), DrawQty(t, 2, false)
		day := hi + 1
		gap := func() ref.Day { return ref.Day(rapid.IntRange(0, 2).Draw(t, "reopenGap")) }
		add := func(d ref.Directive) { j.Directives = append(j.Directives, d) }
		add(ref.Directive{Kind: ref.KOpen, Date: day, Account: a})
		add(ref.Directive{Kind: ref.KOpen, Date: day, Account: src})
		add(ref.Directive{Kind: ref.KTrx, Date: day, Desc: "first round", Bookings: []ref.Booking{{Credit: src, Debit: a, Qty: q1, Com: c1}}})
		day += gap()
		add(ref.Directive{Kind: ref.KTrx, Date: day, Desc: "first round back", Bookings: []ref.Booking{{Credit: a, Debit: src, Qty: q1, Com: c1}}})
		day += gap()
		add(ref.Directive{Kind: ref.KClose, Date: day, Account: a})
		day += 1 + gap()
		add(ref.Directive{Kind: ref.KOpen, Date: day, Account: a})
		add(ref.Directive{Kind: ref.KTrx, Date: day, Desc: "second round", Bookings: []ref.Booking{{Credit: src, Debit: a, Qty: q2, Com: c2}}})
		if rapid.Bool().Draw(t, "reopenZeroAgain") {
			day += gap()
			add(ref.Directive{Kind: ref.KTrx, Date: day, Desc: "second round back", Bookings: []ref.Booking{{Credit: a, Debit: src, Qty: q2, Com: c2}}})
		}
		day += gap()
		add(ref.Directive{Kind: ref.KClose, Date: day, Account: a})
		j.Accounts = append(j.Accounts, a, src)
		return "reopen-cycle"
	case 12: // a day on which many accounts are closed (a year-end clean-up): one of them receives a booking that same day
		byDay := map[ref.Day][]string{}
		for _, d := range ds {
			if d.Kind == ref.KClose && ref.IsAL(d.Account) {
				byDay[d.Date] = append(byDay[d.Date], d.Account)
			}
		}
		var best ref.Day
		for day, as := range byDay {
			if len(as) > len(byDay[best]) || (len(as) == len(byDay[best]) && day < best) {
				best = day
			}
		}
		if as := byDay[best]; len(as) >= 2 {
			a := as[rapid.IntRange(0, len(as)-1).Draw(t, "closedAcc")]
			b := as[rapid.IntRange(0, len(as)-1).Draw(t, "closedCounter")]
			j.Directives = insertAt(ds, pos(), ref.Directive{Kind: ref.KTrx, Date: best, Desc: "booked on the day of the clean-up",
				Bookings: []ref.Booking{{Credit: b, Debit: a, Qty: DrawQty(t, 2, false), Com: com()}}})
			return "booking-on-mass-close-day"
		}
	case 13: // the last account touched before its close is used again right after it (a card paid off, closed - and charged once more)
		var closes []int
		for i, d := range ds {
			if d.Kind == ref.KClose && d.Date >= hi-3 {
				closes = append(closes, i)
			}
		}
		if len(closes) == 0 {
			closes = indices(ds, ref.KClose)
		}
		// a counter-account that is opened before and never closed
		closed := map[string]bool{}
		opened := map[string]ref.Day{}
		for _, d := range ds {
			switch d.Kind {
			case ref.KClose:
				closed[d.Account] = true
			case ref.KOpen:
				if o, ok := opened[d.Account]; !ok || d.Date < o {
					opened[d.Account] = d.Date
				}
			}
		}
		if len(closes) > 0 {
			cl := ds[closes[rapid.IntRange(0, len(closes)-1).Draw(t, "whichClose")]]
			var others []string
			for _, a := range j.Accounts {
				if o, ok := opened[a]; ok && !closed[a] && o <= cl.Date && a != cl.Account {
					others = append(others, a)
				}
			}
			if len(others) > 0 {
				other := others[rapid.IntRange(0, len(others)-1).Draw(t, "counter")]
				c := com()
				// a zero booking on the day of the close keeps the position at zero and makes the account the last one looked at
				before := ref.Directive{Kind: ref.KTrx, Date: cl.Date, Desc: "zzz last entry before the close", Bookings: []ref.Booking{{Credit: other, Debit: cl.Account, Qty: "0", Com: c}}}
				after := ref.Directive{Kind: ref.KTrx, Date: cl.Date + ref.Day(rapid.IntRange(1, 2).Draw(t, "afterClose")), Desc: "charged once more",
					Bookings: []ref.Booking{{Credit: cl.Account, Debit: other, Qty: DrawQty(t, 2, false), Com: c}}}
				if rapid.Bool().Draw(t, "afterDebitSide") {
					after.Bookings[0].Credit, after.Bookings[0].Debit = other, cl.Account
				}
				j.Directives = append(j.Directives, before, after)
				return "use-after-close"
			}
		}
	case 9: // extra open at an arbitrary date
		j.Directives = insertAt(ds, pos(), ref.Directive{Kind: ref.KOpen, Date: anyDate(), Account: acc()})
		return "extra-open"
	}
	return "none"
}

// Shuffle returns a drawn permutation of the directives.
func Shuffle(t *rapid.T, ds []ref.Directive) []ref.Directive {
	if len(ds) < 2 {
		return ds
	}
	return rapid.Permutation(ds).Draw(t, "perm")
}
