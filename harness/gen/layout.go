package gen

import (
	"fmt"
	"strings"

	"pgregory.net/rapid"

	"verifharness/ref"
)

// RenderNoisy renders directives in a syntactically valid but noisy layout:
// tabs vs spaces, CRLF, trailing blanks, blank-line counts, comment lines,
// annotation order, single/multi-line assertions, missing final newline.
// It always emits the blank line the grammar needs after a transaction or a
// multi-line assertion (unless it is the end of the file).
func RenderNoisy(t *rapid.T, ds []ref.Directive) string {
	var b strings.Builder
	crlfAll := rapid.IntRange(0, 9).Draw(t, "crlfAll") == 0
	nl := func() string {
		if crlfAll || rapid.IntRange(0, 19).Draw(t, "crlf") == 0 {
			return "\r\n"
		}
		return "\n"
	}
	sep := func() string {
		return rapid.SampledFrom([]string{" ", " ", " ", "  ", "\t", "   ", " \t "}).Draw(t, "sep")
	}
	trail := func() string {
		return rapid.SampledFrom([]string{"", "", "", "", " ", "\t", "  "}).Draw(t, "trail")
	}
	comment := func() string {
		c := rapid.SampledFrom([]string{"# comment", "* Heading", "// note", "#", "*", "//", "# 2020-01-01 open Assets:X", "* \"quoted\"", "#\ttab", "// ünï", "# replacement \ufffd char", "# 50% of rent", "* 100%s %d %v %%", "// \\n \\t \\", "# \"quoted\" 'text'", "#!shebang", "* @accrue monthly", "// include \"x\""}).Draw(t, "comment")
		return c + trail()
	}
	gap := func(needBlank bool) {
		// lines between directives: blank lines, whitespace-only lines, comments
		n := rapid.SampledFrom([]int{0, 0, 0, 1, 1, 2, 3}).Draw(t, "gapN")
		if needBlank {
			b.WriteString(rapid.SampledFrom([]string{"", "", " ", "\t"}).Draw(t, "blankWs") + nl())
		}
		for i := 0; i < n; i++ {
			if rapid.Bool().Draw(t, "gapComment") {
				b.WriteString(comment() + nl())
			} else {
				b.WriteString(rapid.SampledFrom([]string{"", "", " ", "\t "}).Draw(t, "blankWs") + nl())
			}
		}
	}
	if rapid.IntRange(0, 3).Draw(t, "leadGap") == 0 {
		gap(false)
	}
	for i, d := range ds {
		last := i == len(ds)-1
		needBlank := false
		if d.Kind != ref.KTrx && rapid.IntRange(0, 15).Draw(t, "strayAnnotation") == 0 {
			// the grammar accepts annotation lines in front of any directive (they attach to nothing)
			b.WriteString(rapid.SampledFrom([]string{"@performance(USD)", "@performance()", "@accrue monthly 2020-01-01 2020-03-31 Assets:Accrual"}).Draw(t, "strayAnnotationV") + nl())
		}
		switch d.Kind {
		case ref.KOpen:
			fmt.Fprintf(&b, "%s%sopen%s%s%s", d.Date, sep(), sep(), d.Account, trail())
		case ref.KClose:
			fmt.Fprintf(&b, "%s%sclose%s%s%s", d.Date, sep(), sep(), d.Account, trail())
		case ref.KPrice:
			fmt.Fprintf(&b, "%s%sprice%s%s%s%s%s%s%s", d.Date, sep(), sep(), d.Com, sep(), d.Price, sep(), d.Target, trail())
		case ref.KInclude:
			fmt.Fprintf(&b, "include%s\"%s\"%s", sep(), d.Path, trail())
		case ref.KAssert:
			if len(d.Balances) == 1 && rapid.IntRange(0, 3).Draw(t, "multiSingle") != 0 {
				bal := d.Balances[0]
				fmt.Fprintf(&b, "%s%sbalance%s%s%s%s%s%s%s", d.Date, sep(), sep(), bal.Account, sep(), bal.Qty, sep(), bal.Com, trail())
			} else {
				fmt.Fprintf(&b, "%s%sbalance%s", d.Date, sep(), trail())
				for _, bal := range d.Balances {
					fmt.Fprintf(&b, "%s%s%s%s%s%s%s", nl(), bal.Account, sep(), bal.Qty, sep(), bal.Com, trail())
				}
				needBlank = true
			}
		case ref.KTrx:
			accr := ""
			if d.Accrual != nil {
				accr = fmt.Sprintf("@accrue%s%s%s%s%s%s%s%s%s", sep(), d.Accrual.Interval, sep(), d.Accrual.Start, sep(), d.Accrual.End, sep(), d.Accrual.Account, trail())
			}
			perf := ""
			if d.HasPerf {
				in := rapid.SampledFrom([]string{"", "", " "}).Draw(t, "perfWs")
				perf = "@performance(" + in + strings.Join(d.Perf, in+","+in) + in + ")" + trail()
			}
			if accr != "" && perf != "" && rapid.Bool().Draw(t, "perfFirst") {
				b.WriteString(perf + nl() + accr + nl())
			} else {
				if accr != "" {
					b.WriteString(accr + nl())
				}
				if perf != "" {
					b.WriteString(perf + nl())
				}
			}
			fmt.Fprintf(&b, "%s%s\"%s\"%s", d.Date, sep(), d.Desc, trail())
			for _, bk := range d.Bookings {
				fmt.Fprintf(&b, "%s%s%s%s%s%s%s%s%s", nl(), bk.Credit, sep(), bk.Debit, sep(), bk.Qty, sep(), bk.Com, trail())
			}
			needBlank = true
		}
		if last {
			if rapid.IntRange(0, 2).Draw(t, "noFinalNewline") == 0 {
				break
			}
			b.WriteString(nl())
			if rapid.IntRange(0, 2).Draw(t, "tailGap") == 0 {
				gap(needBlank)
			}
			break
		}
		b.WriteString(nl())
		gap(needBlank)
	}
	return b.String()
}

// Mutate applies a few drawn byte-level edits to s.
func Mutate(t *rapid.T, s string) string {
	bs := []byte(s)
	n := rapid.IntRange(1, 3).Draw(t, "nEdits")
	hostile := []string{"\xef\xbb\xbf", "\x00", "\xff", "\xc3", "\xf0\x9f\x98", "\"", "@", "@accrue ", "@performance(", "include \"", "\r", "\n\n", "\t", "$", "$x", ":", "-", ".", "//", "*", "#", "0000-00-00", "9999-99-99 open A", "balance", "price", "𝔘", " ", " ", "１"}
	for i := 0; i < n; i++ {
		if len(bs) == 0 {
			bs = append(bs, rapid.SampledFrom(hostile).Draw(t, "ins")...)
			continue
		}
		pos := rapid.IntRange(0, len(bs)).Draw(t, "pos")
		switch rapid.IntRange(0, 6).Draw(t, "edit") {
		case 0: // delete span
			end := pos + rapid.IntRange(1, 12).Draw(t, "len")
			if end > len(bs) {
				end = len(bs)
			}
			bs = append(bs[:pos:pos], bs[end:]...)
		case 1: // insert hostile token
			ins := rapid.SampledFrom(hostile).Draw(t, "ins")
			bs = append(bs[:pos:pos], append([]byte(ins), bs[pos:]...)...)
		case 2: // replace one byte
			if pos < len(bs) {
				bs[pos] = rapid.Byte().Draw(t, "byte")
			}
		case 3: // truncate
			bs = bs[:pos]
		case 4: // duplicate a span
			end := pos + rapid.IntRange(1, 40).Draw(t, "len")
			if end > len(bs) {
				end = len(bs)
			}
			span := append([]byte{}, bs[pos:end]...)
			bs = append(bs[:end:end], append(span, bs[end:]...)...)
		case 5: // swap newline style at pos
			for j := pos; j < len(bs); j++ {
				if bs[j] == '\n' {
					bs = append(bs[:j:j], append([]byte("\r"), bs[j:]...)...)
					break
				}
			}
		case 6: // insert arbitrary bytes
			ins := rapid.SliceOfN(rapid.Byte(), 1, 6).Draw(t, "raw")
			bs = append(bs[:pos:pos], append(ins, bs[pos:]...)...)
		}
	}
	return string(bs)
}
