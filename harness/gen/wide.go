package gen

import (
	"fmt"

	"pgregory.net/rapid"

	"verifharness/ref"
)

// GenWideJournal draws a journal with many (20-60) commodities, each booked a
// few times between a handful of accounts, so that when the directives are
// dealt over several files many files mention the same not-yet-seen names at
// the same moment (registry check-then-act, arrival order, map order).
func GenWideJournal(t *rapid.T) ref.Journal {
	n := rapid.IntRange(20, 60).Draw(t, "nCommodities")
	day := ref.FromCivil(rapid.IntRange(2015, 2022).Draw(t, "year"), rapid.IntRange(1, 12).Draw(t, "month"), 1)
	accs := []string{"Assets:Depot", "Assets:Depot:Sub", "Liabilities:Margin", "Equity:Equity", "Income:Gains", "Expenses:Fees"}
	nAcc := rapid.IntRange(0, 20).Draw(t, "extraAccounts")
	for i := 0; i < nAcc; i++ {
		accs = append(accs, fmt.Sprintf("Assets:Depot:P%02d", i))
	}
	j := ref.Journal{Accounts: accs}
	for _, a := range accs {
		j.Directives = append(j.Directives, ref.Directive{Kind: ref.KOpen, Date: day, Account: a})
	}
	k := 0
	for i := 0; i < n; i++ {
		com := fmt.Sprintf("C%02d", i)
		if i%7 == 3 {
			com = fmt.Sprintf("Ü%dX", i)
		}
		j.Commodities = append(j.Commodities, com)
		nb := rapid.IntRange(2, 4).Draw(t, "nBookings")
		for b := 0; b < nb; b++ {
			k++
			cr := rapid.SampledFrom(accs).Draw(t, "cr")
			dr := rapid.SampledFrom(accs).Draw(t, "dr")
			j.Directives = append(j.Directives, ref.Directive{Kind: ref.KTrx, Date: day + ref.Day(rapid.IntRange(0, 90).Draw(t, "off")), Desc: fmt.Sprintf("w%d", k),
				Bookings: []ref.Booking{{Credit: cr, Debit: dr, Qty: fmt.Sprint(rapid.IntRange(1, 999).Draw(t, "q")), Com: com}}})
		}
	}
	return j
}
