package gen

import (
	"fmt"
	"path"
	"path/filepath"
	"sort"
	"strings"

	"pgregory.net/rapid"

	"verifharness/ref"
)

// Tree is a journal distributed over a tree of included files.
type Tree struct {
	Files map[string]string `json:"files"` // relative path → content
	Main  string            `json:"main"`
	Depth int               `json:"depth"`
}

// SplitIntoTree deals the directives to nFiles files arranged in a random
// include tree (depth ≤ 4) in nested directories with relative include paths
// (`sub/a.knut`, `../b.knut`). Within a file the directives keep their
// relative order; include directives are placed at drawn positions.
func SplitIntoTree(t *rapid.T, ds []ref.Directive, maxFiles int) Tree {
	return SplitIntoTreeMin(t, ds, 1, maxFiles)
}

// SplitIntoTreeMin is SplitIntoTree with a lower bound on the number of files.
func SplitIntoTreeMin(t *rapid.T, ds []ref.Directive, minFiles, maxFiles int) Tree {
	n := rapid.IntRange(minFiles, maxFiles).Draw(t, "nFiles")
	type file struct {
		dir, name string
		parent    int
		depth     int
		ds        []ref.Directive
		children  []int
	}
	files := make([]*file, n)
	dirs := []string{"."}
	files[0] = &file{dir: ".", name: "main.knut", parent: -1}
	maxDepth := 0
	for i := 1; i < n; i++ {
		p := rapid.IntRange(0, i-1).Draw(t, "parent")
		if files[p].depth >= 4 {
			p = 0
		}
		var dir string
		switch rapid.IntRange(0, 3).Draw(t, "dirKind") {
		case 0: // same directory as the parent
			dir = files[p].dir
		case 1: // a new sub-directory of the parent's directory
			dir = path.Join(files[p].dir, fmt.Sprintf("d%d", i))
			dirs = append(dirs, dir)
		default: // any existing directory (gives ../ paths)
			dir = rapid.SampledFrom(dirs).Draw(t, "anyDir")
		}
		// file names are reused across directories (2022/q1.knut, 2023/q1.knut): the same relative include
		// string then names different files
		name := fmt.Sprintf("f%d.knut", i)
		if rapid.IntRange(0, 1).Draw(t, "commonName") == 0 {
			cand := rapid.SampledFrom([]string{"q1.knut", "index.knut", "prices.knut"}).Draw(t, "commonNameV")
			free := true
			for _, f := range files[:i] {
				if f.dir == dir && f.name == cand {
					free = false
				}
			}
			if free && !(dir == "." && cand == "main.knut") {
				name = cand
			}
		}
		files[i] = &file{dir: dir, name: name, parent: p, depth: files[p].depth + 1}
		files[p].children = append(files[p].children, i)
		if files[i].depth > maxDepth {
			maxDepth = files[i].depth
		}
	}
	for _, d := range ds {
		k := 0
		if n > 1 {
			k = rapid.IntRange(0, n-1).Draw(t, "file")
		}
		files[k].ds = append(files[k].ds, d)
	}
	tree := Tree{Files: map[string]string{}, Main: "main.knut", Depth: maxDepth}
	for _, f := range files {
		var parts []string
		for _, d := range f.ds {
			parts = append(parts, d.Render())
		}
		for _, c := range f.children {
			rel, err := filepath.Rel(f.dir, path.Join(files[c].dir, files[c].name))
			if err != nil {
				panic(err)
			}
			inc := ref.Directive{Kind: ref.KInclude, Path: filepath.ToSlash(rel)}.Render()
			pos := rapid.IntRange(0, len(parts)).Draw(t, "incPos")
			parts = append(parts[:pos:pos], append([]string{inc}, parts[pos:]...)...)
		}
		tree.Files[path.Join(f.dir, f.name)] = strings.Join(parts, "")
	}
	return tree
}

// SortedNames lists the files of a tree.
func (tr Tree) SortedNames() []string {
	var ns []string
	for n := range tr.Files {
		ns = append(ns, n)
	}
	sort.Strings(ns)
	return ns
}
