package gen

import (
	"fmt"
	"path"
	"path/filepath"
	"sort"
	"strings"

	"pgregory.net/rapid"

	"verifharness/ref"
)

// Tree is a journal distributed over a tree of included files.
type Tree struct {
	Files map[string]string `json:"files"` // relative path → content
	Main  string            `json:"main"`
	Depth int               `json:"depth"`
}

// SplitIntoTree deals the directives to nFiles files arranged in a random
// include tree (depth ≤ 4) in nested directories with relative include paths
// (`sub/a.knut`, `../b.knut`). Within a file the directives keep their
// relative order; include directives are placed at drawn positions.
func SplitIntoTree(t *rapid.T, ds []ref.Directive, maxFiles int) Tree {
	return SplitIntoTreeMin(t, ds, 1, maxFiles)
}

// SplitIntoTreeMin is SplitIntoTree with a lower bound on the number of files.
func SplitIntoTreeMin(t *rapid.T, ds []ref.Directive, minFiles, maxFiles int) Tree {
	n := rapid.IntRange(minFiles, maxFiles).Draw(t, "nFiles")
	type file struct {
		dir, name string
		parent    int
		depth     int
		ds        []ref.Directive
		children  []int
	}
	files := make([]*file, n)
	dirs := []string{"."}
	files[0] = &file{dir: ".", name: "main.knut", parent: -1}
	maxDepth := 0
	for i := 1; i < n; i++ {
		p := rapid.IntRange(0, i-1).Draw(t, "parent")
		if files[p].depth >= 4 {
			p = 0
		}
		var dir string
		switch rapid.IntRange(0, 3).Draw(t, "dirKind") {
		case 0: // same directory as the parent
			dir = files[p].dir
		case 1: // a new sub-directory of the parent's directory
			dir = path.Join(files[p].dir, fmt.Sprintf("d%d", i))
			dirs = append(dirs, dir)
		default: // any existing directory (gives ../ paths)
			dir = rapid.SampledFrom(dirs).Draw(t, "anyDir")
		}
		// file names are reused across directories (2022/q1.knut, 2023/q1.knut): the same relative include
		// string then names different files
		name := fmt.Sprintf("f%d.knut", i)
		if rapid.IntRange(0, 1).Draw(t, "commonName") == 0 {
			cand := rapid.SampledFrom([]string{"q1.knut", "index.knut", "prices.knut"}).Draw(t, "commonNameV")
			free := true
			for _, f := range files[:i] {
				if f.dir == dir && f.name == cand {
					free = false
				}
			}
			if free && !(dir == "." && cand == "main.knut") {
				name = cand
			}
		}
		files[i] = &file{dir: dir, name: name, parent: p, depth: files[p].depth + 1}
		files[p].children = append(files[p].children, i)
		if files[i].depth > maxDepth {
			maxDepth = files[i].depth
		}
	}
	for _, d := range ds {
		k := 0
		if n > 1 {
			k = rapid.IntRange(0, n-1).Draw(t, "file")
		}
		files[k].ds = append(files[k].ds, d)
	}
	tree := Tree{Files: map[string]string{}, Main: "main.knut", Depth: maxDepth}
	for _, f := range files {
		var parts []string
		for _, d := range f.ds {
			parts = append(parts, d.Render())
		}
		for _, c := range f.children {
			rel, err := filepath.Rel(f.dir, path.Join(files[c].dir, files[c].name))
			if err != nil {
				panic(err)
			}
			inc := ref.Directive{Kind: ref.KInclude, Path: filepath.ToSlash(rel)}.Render()
			pos := rapid.IntRange(0, len(parts)).Draw(t, "incPos")
			parts = append(parts[:pos:pos], append([]string{inc}, parts[pos:]...)...)
		}
		tree.Files[path.Join(f.dir, f.name)] = strings.Join(parts, "")
	}
	return tree
}

// SortedNames lists the files of a tree.
func (tr Tree) SortedNames() []string {
	var ns []string
	for n := range tr.Files {
		ns = append(ns, n)
	}
	sort.Strings(ns)
	return ns
}

// WideNestedTree deals the directives over main.knut, n "month" files included by main and one
// sub-file per month file (2n+1 files): many parsers are in flight at once and each spawns another.
func WideNestedTree(t *rapid.T, ds []ref.Directive, n int) Tree {
	names := []string{"main.knut"}
	inc := map[string][]string{}
	for i := 0; i < n; i++ {
		mid := fmt.Sprintf("m%02d/month.knut", i)
		leaf := fmt.Sprintf("m%02d/sub/detail.knut", i)
		names = append(names, mid, leaf)
		inc["main.knut"] = append(inc["main.knut"], mid)
		inc[mid] = append(inc[mid], "sub/detail.knut")
	}
	parts := map[string][]string{}
	for _, d := range ds {
		k := names[rapid.IntRange(0, len(names)-1).Draw(t, "file")]
		parts[k] = append(parts[k], d.Render())
	}
	tree := Tree{Files: map[string]string{}, Main: "main.knut", Depth: 2}
	for _, name := range names {
		body := parts[name]
		for _, target := range inc[name] {
			line := ref.Directive{Kind: ref.KInclude, Path: target}.Render()
			pos := len(body)
			if rapid.Bool().Draw(t, "includeFirst") {
				pos = 0
			}
			body = append(body[:pos:pos], append([]string{line}, body[pos:]...)...)
		}
		tree.Files[name] = strings.Join(body, "")
	}
	return tree
}

// DeepChainTree deals the directives over a chain main -> c1 -> ... -> c<depth> of includes (every file includes
// the next one; some links go through nested directories and back with ../), deeper than any tree of
// SplitIntoTree. Within a file the directives keep their relative order.
func DeepChainTree(t *rapid.T, ds []ref.Directive, depth int) Tree {
	names := []string{"main.knut"}
	dir := "."
	for i := 1; i <= depth; i++ {
		switch rapid.IntRange(0, 3).Draw(t, "chainDir") {
		case 0:
			dir = path.Join(dir, fmt.Sprintf("n%d", i))
		case 1:
			if dir != "." {
				dir = path.Dir(dir)
			}
		}
		names = append(names, path.Join(dir, fmt.Sprintf("c%d.knut", i)))
	}
	parts := make([][]string, len(names))
	for _, d := range ds {
		k := rapid.IntRange(0, len(names)-1).Draw(t, "file")
		parts[k] = append(parts[k], d.Render())
	}
	tree := Tree{Files: map[string]string{}, Main: "main.knut", Depth: depth}
	for i, name := range names {
		body := parts[i]
		if i+1 < len(names) {
			rel, err := filepath.Rel(path.Dir(name), names[i+1])
			if err != nil {
				panic(err)
			}
			line := ref.Directive{Kind: ref.KInclude, Path: filepath.ToSlash(rel)}.Render()
			pos := rapid.IntRange(0, len(body)).Draw(t, "incPos")
			body = append(body[:pos:pos], append([]string{line}, body[pos:]...)...)
		}
		tree.Files[name] = strings.Join(body, "")
	}
	return tree
}
