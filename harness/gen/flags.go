package gen

import (
	"fmt"
	"regexp"
	"strconv"
	"strings"

	"pgregory.net/rapid"

	"verifharness/ref"
)

// Mapping is one -m rule.
type Mapping struct {
	Level  int    `json:"level"`
	Suffix int    `json:"suffix"`
	Regex  string `json:"regex"` // "" = no regex part
	HasRe  bool   `json:"has_re"`
}

func (m Mapping) Arg() string {
	s := strconv.Itoa(m.Level)
	if m.Suffix != 0 {
		s += ":" + strconv.Itoa(m.Suffix)
	}
	if m.HasRe {
		s += "," + m.Regex
	}
	return s
}

// BalFlags is a structured draw of `knut balance` flags.
type BalFlags struct {
	From        *ref.Day  `json:"from,omitempty"`
	To          *ref.Day  `json:"to,omitempty"`
	Interval    int       `json:"interval"`
	Last        int       `json:"last,omitempty"`
	Diff        bool      `json:"diff,omitempty"`
	NoClose     bool      `json:"no_close,omitempty"`
	Valuation   string    `json:"valuation,omitempty"`
	SortAlpha   bool      `json:"sort_alpha,omitempty"`
	ShowCom     string    `json:"show_com,omitempty"`
	Mappings    []Mapping `json:"mappings,omitempty"`
	Remap       []string  `json:"remap,omitempty"`
	Accounts    []string  `json:"accounts,omitempty"`
	Commodities []string  `json:"commodities,omitempty"`
	Digits      int       `json:"digits"`
	Thousands   bool      `json:"thousands,omitempty"`
	CSV         bool      `json:"csv,omitempty"`
}

// Args renders the flags (without the command name and the file).
func (f BalFlags) Args() []string {
	a := []string{"--color=false"}
	if f.From != nil {
		a = append(a, "--from", f.From.String())
	}
	if f.To != nil {
		a = append(a, "--to", f.To.String())
	}
	if fl := ref.IntervalFlags[f.Interval]; fl != "" {
		a = append(a, fl)
	}
	if f.Last != 0 {
		a = append(a, "--last", strconv.Itoa(f.Last))
	}
	if f.Diff {
		a = append(a, "--diff")
	}
	if f.NoClose {
		a = append(a, "--close=false")
	}
	if f.Valuation != "" {
		a = append(a, "-v", f.Valuation)
	}
	if f.SortAlpha {
		a = append(a, "-a")
	}
	if f.ShowCom != "" {
		a = append(a, "-s", f.ShowCom)
	}
	for _, m := range f.Mappings {
		a = append(a, "-m", m.Arg())
	}
	for _, r := range f.Remap {
		a = append(a, "--remap", r)
	}
	for _, r := range f.Accounts {
		a = append(a, "--account", r)
	}
	for _, r := range f.Commodities {
		a = append(a, "--commodity", r)
	}
	if f.CSV {
		a = append(a, "--csv")
	} else {
		if f.Digits != 0 {
			a = append(a, "--digits", strconv.Itoa(f.Digits))
		}
		if f.Thousands {
			a = append(a, "-k")
		}
	}
	return a
}

// FlagOpts selects which flag families may be drawn.
type FlagOpts struct {
	Filters   bool // --account / --commodity
	Hide      bool // -m 0,…
	Mappings  bool
	Remap     bool
	Valuation bool // draw -v among the journal's commodities
	Exact     bool // --digits 9 text or --csv only (no rounding, no -k)
}

// DatesOf returns the span of all effective dates of a journal (transactions
// after accrual expansion, prices, opens …).
func DatesOf(j ref.Journal) (lo, hi ref.Day, ok bool) {
	first := true
	upd := func(d ref.Day) {
		if first || d < lo {
			lo = d
		}
		if first || d > hi {
			hi = d
		}
		first = false
	}
	for i, d := range j.Directives {
		if d.Kind == ref.KInclude {
			continue
		}
		upd(d.Date)
		if d.Kind == ref.KTrx && d.Accrual != nil {
			ts, _ := ref.Expand(d, i)
			for _, t := range ts {
				upd(t.Date)
			}
		}
	}
	return lo, hi, !first
}

// nameRegexes builds regex candidates from account names: anchored types,
// segments, full names, prefixes.
func nameRegexes(t *rapid.T, names []string, label string) string {
	if len(names) == 0 {
		return "."
	}
	n := rapid.SampledFrom(names).Draw(t, label+"Name")
	segs := strings.Split(n, ":")
	switch rapid.IntRange(0, 6).Draw(t, label+"Kind") {
	case 0:
		return "^" + segs[0]
	case 1:
		return regexp.QuoteMeta(segs[len(segs)-1])
	case 2:
		return "^" + regexp.QuoteMeta(n) + "$"
	case 3:
		return regexp.QuoteMeta(n)
	case 4:
		return "."
	case 5:
		return rapid.SampledFrom([]string{"^(Assets|Liabilities)", "^(Income|Expenses)", "Equity", "a", "^[AE]", "nomatch"}).Draw(t, label+"Fix")
	}
	if len(segs) > 1 {
		return "^" + regexp.QuoteMeta(strings.Join(segs[:len(segs)-1], ":"))
	}
	return "^" + segs[0]
}

// DrawBalFlags draws flags for journal j.
func DrawBalFlags(t *rapid.T, j ref.Journal, o FlagOpts) BalFlags {
	var f BalFlags
	lo, hi, ok := DatesOf(j)
	if !ok {
		lo, hi = ref.FromCivil(2020, 1, 1), ref.FromCivil(2020, 1, 1)
	}
	span := int(hi - lo)
	rel := func(label string) *ref.Day {
		var d ref.Day
		switch rapid.IntRange(0, 5).Draw(t, label+"Kind") {
		case 0, 1, 2:
			return nil
		case 3: // inside
			d = lo + ref.Day(rapid.IntRange(0, span).Draw(t, label+"In"))
		case 4: // outside / around the edges
			d = rapid.SampledFrom([]ref.Day{lo - 40, lo - 1, lo, hi, hi + 1, hi + 40}).Draw(t, label+"Edge")
		case 5: // a period boundary inside
			d = ref.UnitEnd(lo+ref.Day(rapid.IntRange(0, span).Draw(t, label+"In")), ref.Monthly)
			if rapid.Bool().Draw(t, label+"Next") {
				d++
			}
		}
		return &d
	}
	f.From = rel("from")
	f.To = rel("to")
	if f.To == nil && hi > ref.FromCivil(2024, 6, 30) {
		// keep the wall clock (default --to = today) out of the case
		d := hi + ref.Day(rapid.IntRange(0, 20).Draw(t, "toFuture"))
		f.To = &d
	}
	// effective window length decides which intervals are affordable
	wlo, whi := lo, hi
	if f.From != nil && *f.From > wlo {
		wlo = *f.From
	}
	if f.To != nil && *f.To < whi {
		whi = *f.To
	}
	f.Interval = rapid.SampledFrom([]int{0, 0, 1, 2, 3, 3, 3, 4, 5}).Draw(t, "interval")
	if f.Interval == int(ref.Daily) && whi-wlo > 45 {
		f.Interval = int(ref.Monthly)
	}
	if f.Interval == int(ref.Weekly) && whi-wlo > 400 {
		f.Interval = int(ref.Quarterly)
	}
	if f.Interval == int(ref.Monthly) && whi-wlo > 2000 {
		f.Interval = int(ref.Yearly)
	}
	if whi-wlo > 20000 && f.Interval != 0 {
		f.Interval = int(ref.Yearly)
	}
	f.Last = rapid.SampledFrom([]int{0, 0, 0, 1, 2, 3, 50}).Draw(t, "last")
	f.Diff = rapid.IntRange(0, 2).Draw(t, "diff") == 0
	f.NoClose = rapid.IntRange(0, 2).Draw(t, "noClose") == 0
	f.SortAlpha = rapid.Bool().Draw(t, "sortAlpha")
	if o.Valuation && len(j.Commodities) > 0 && rapid.IntRange(0, 1).Draw(t, "valued") == 0 {
		f.Valuation = rapid.SampledFrom(j.Commodities).Draw(t, "valuation")
		if rapid.Bool().Draw(t, "showCom") {
			f.ShowCom = rapid.SampledFrom([]string{".", "^Assets", "Bank", "nomatch"}).Draw(t, "showComRe")
		}
	}
	if o.Mappings && rapid.IntRange(0, 2).Draw(t, "hasMapping") == 0 {
		n := rapid.IntRange(1, 3).Draw(t, "nMappings")
		for i := 0; i < n; i++ {
			m := Mapping{Level: rapid.SampledFrom([]int{1, 1, 2, 2, 3}).Draw(t, "mLevel")}
			if o.Hide && rapid.IntRange(0, 3).Draw(t, "hide") == 0 {
				m.Level = 0
			}
			if rapid.IntRange(0, 2).Draw(t, "hasSuffix") == 0 {
				m.Suffix = rapid.IntRange(1, 2).Draw(t, "mSuffix")
			}
			if rapid.IntRange(0, 4).Draw(t, "hasRe") != 0 {
				m.HasRe = true
				m.Regex = nameRegexes(t, j.Accounts, "mRe")
			}
			f.Mappings = append(f.Mappings, m)
		}
	}
	if o.Remap && rapid.IntRange(0, 3).Draw(t, "hasRemap") == 0 {
		f.Remap = append(f.Remap, nameRegexes(t, j.Accounts, "remap"))
	}
	if o.Filters {
		if rapid.IntRange(0, 3).Draw(t, "hasAccFilter") == 0 {
			f.Accounts = append(f.Accounts, nameRegexes(t, j.Accounts, "accFilter"))
			if rapid.IntRange(0, 3).Draw(t, "twoAccFilters") == 0 {
				f.Accounts = append(f.Accounts, nameRegexes(t, j.Accounts, "accFilter2"))
			}
		}
		if rapid.IntRange(0, 3).Draw(t, "hasComFilter") == 0 && len(j.Commodities) > 0 {
			c := rapid.SampledFrom(j.Commodities).Draw(t, "comFilter")
			f.Commodities = append(f.Commodities, rapid.SampledFrom([]string{"^" + regexp.QuoteMeta(c) + "$", regexp.QuoteMeta(c), ".", "^[A-M]"}).Draw(t, "comFilterRe"))
		}
	}
	if o.Exact {
		if rapid.Bool().Draw(t, "csv") {
			f.CSV = true
		} else {
			f.Digits = 9
		}
	} else {
		f.CSV = rapid.IntRange(0, 3).Draw(t, "csv") == 0
		f.Digits = rapid.SampledFrom([]int{0, 0, 1, 2, 4, 8}).Draw(t, "digits")
		f.Thousands = rapid.IntRange(0, 4).Draw(t, "thousands") == 0
	}
	return f
}

func (f BalFlags) String() string { return fmt.Sprint(f.Args()) }
