package ref

import (
	"fmt"
	"math/big"
	"sort"
)

// Half is one signed side of a booking.
type Half struct {
	Date    Day
	Account string
	Other   string
	Qty     *big.Rat
	Com     string
	Src     int // index of the source directive
	Seq     int // arrival order
	Desc    string
}

// ETrx is a transaction after accrual expansion: a list of (credit, debit,
// qty, com) postings on one date.
type ETrx struct {
	Date     Day
	Desc     string
	Postings []EPosting
	Src      int
	HasPerf  bool
	Perf     []string
}

type EPosting struct {
	Credit, Debit string
	Qty           *big.Rat
	Com           string
}

// Halves returns the signed halves of the postings: credit −q, debit +q.
func (t ETrx) Halves() []Half {
	var hs []Half
	for _, p := range t.Postings {
		hs = append(hs,
			Half{Date: t.Date, Account: p.Credit, Other: p.Debit, Qty: Neg(p.Qty), Com: p.Com, Src: t.Src, Desc: t.Desc},
			Half{Date: t.Date, Account: p.Debit, Other: p.Credit, Qty: new(big.Rat).Set(p.Qty), Com: p.Com, Src: t.Src, Desc: t.Desc},
		)
	}
	return hs
}

// Expand turns a transaction directive into the transactions knut processes.
// Without @accrue that is the transaction itself. With @accrue (statement of
// C10): every half on an income/expense account is split over the periods of
// the accrual window and dated at the period ends, every other half keeps the
// original date; each is booked against the accrual account. The concrete
// split is knut's documented rule: x/n truncated toward zero at one decimal,
// remainder on the first part. ok=false when the window is empty (start > end),
// which the property excludes.
func Expand(d Directive, src int) (ts []ETrx, ok bool) {
	if d.Kind != KTrx {
		return nil, true
	}
	if d.Accrual == nil {
		t := ETrx{Date: d.Date, Desc: d.Desc, Src: src, HasPerf: d.HasPerf, Perf: d.Perf}
		for _, b := range d.Bookings {
			t.Postings = append(t.Postings, EPosting{Credit: b.Credit, Debit: b.Debit, Qty: R(b.Qty), Com: b.Com})
		}
		return []ETrx{t}, true
	}
	iv, _ := ParseIntervalName(d.Accrual.Interval)
	periods := Partition(d.Accrual.Start, d.Accrual.End, iv, 0)
	if len(periods) == 0 {
		return nil, false
	}
	n := big.NewRat(int64(len(periods)), 1)
	for _, b := range d.Bookings {
		q := R(b.Qty)
		// knut normalises a negative booking by swapping sides; halves are the same.
		halves := []struct {
			acc string
			x   *big.Rat
		}{{b.Credit, Neg(q)}, {b.Debit, q}}
		if q.Sign() < 0 {
			halves[0], halves[1] = struct {
				acc string
				x   *big.Rat
			}{b.Debit, q}, struct {
				acc string
				x   *big.Rat
			}{b.Credit, Neg(q)}
		}
		for _, h := range halves {
			if IsIE(h.acc) {
				part := TruncN(new(big.Rat).Quo(h.x, n), 1)
				rem := Sub(h.x, Mul(part, n))
				for k, p := range periods {
					x := new(big.Rat).Set(part)
					if k == 0 {
						x.Add(x, rem)
					}
					ts = append(ts, ETrx{
						Date: p.End, Src: src, HasPerf: d.HasPerf, Perf: d.Perf,
						Desc:     fmt.Sprintf("%s (accrual %d/%d)", d.Desc, k+1, len(periods)),
						Postings: []EPosting{{Credit: d.Accrual.Account, Debit: h.acc, Qty: x, Com: b.Com}},
					})
				}
			} else {
				ts = append(ts, ETrx{
					Date: d.Date, Src: src, HasPerf: d.HasPerf, Perf: d.Perf, Desc: d.Desc,
					Postings: []EPosting{{Credit: d.Accrual.Account, Debit: h.acc, Qty: new(big.Rat).Set(h.x), Com: b.Com}},
				})
			}
		}
	}
	return ts, true
}

// ExpandAll expands every transaction of a journal (includes are skipped).
func ExpandAll(ds []Directive) (ts []ETrx, ok bool) {
	for i, d := range ds {
		if d.Kind != KTrx {
			continue
		}
		e, k := Expand(d, i)
		if !k {
			return nil, false
		}
		ts = append(ts, e...)
	}
	return ts, true
}

// Verdict of the lifecycle model.
type Verdict struct {
	OK      bool
	Reason  string
	Src     int // index of the offending directive
	Date    Day
	Account string
	// BoundaryDependent is set when the verdict rests on intra-day order
	// (an open, use, assertion or close of the same account on one day).
	SameDay bool
}

type event struct {
	date Day
	rank int
	seq  int
	src  int
	d    Directive
	t    *ETrx
}

// Lifecycle evaluates the statement of C04 on a list of directives (in
// arrival order): by date, within a day prices, opens, transactions,
// assertions, closes.
func Lifecycle(ds []Directive) Verdict {
	var evs []event
	seq := 0
	for i, d := range ds {
		switch d.Kind {
		case KInclude:
			continue
		case KTrx:
			ts, ok := Expand(d, i)
			if !ok {
				return Verdict{OK: false, Reason: "empty accrual window", Src: i, Date: d.Date}
			}
			for k := range ts {
				evs = append(evs, event{date: ts[k].Date, rank: KindRank(KTrx), seq: seq, src: i, d: d, t: &ts[k]})
				seq++
			}
		default:
			evs = append(evs, event{date: d.Date, rank: KindRank(d.Kind), seq: seq, src: i, d: d})
			seq++
		}
	}
	sort.SliceStable(evs, func(i, j int) bool {
		if evs[i].date != evs[j].date {
			return evs[i].date < evs[j].date
		}
		if evs[i].rank != evs[j].rank {
			return evs[i].rank < evs[j].rank
		}
		return evs[i].seq < evs[j].seq
	})
	open := map[string]bool{}
	pos := map[[2]string]*big.Rat{}
	// same-day detection: accounts touched per day by lifecycle-relevant kinds
	type touch struct {
		day   Day
		kinds map[string]bool
	}
	touched := map[string]*touch{}
	sameDay := false
	mark := func(a string, day Day, kind string) {
		t := touched[a]
		if t == nil || t.day != day {
			t = &touch{day: day, kinds: map[string]bool{}}
			touched[a] = t
		}
		t.kinds[kind] = true
		if len(t.kinds) >= 2 && (t.kinds[KOpen] || t.kinds[KClose] || t.kinds[KAssert]) {
			sameDay = true
		}
	}
	fail := func(e event, acc, reason string) Verdict {
		return Verdict{OK: false, Reason: reason, Src: e.src, Date: e.date, Account: acc, SameDay: sameDay}
	}
	for _, e := range evs {
		switch e.d.Kind {
		case KPrice:
		case KOpen:
			mark(e.d.Account, e.date, KOpen)
			if open[e.d.Account] {
				return fail(e, e.d.Account, "account is already open")
			}
			open[e.d.Account] = true
		case KTrx:
			for _, h := range e.t.Halves() {
				mark(h.Account, e.date, KTrx)
				if !open[h.Account] {
					return fail(e, h.Account, "account is not open")
				}
				if IsAL(h.Account) {
					k := [2]string{h.Account, h.Com}
					if pos[k] == nil {
						pos[k] = new(big.Rat)
					}
					pos[k].Add(pos[k], h.Qty)
				}
			}
		case KAssert:
			for _, b := range e.d.Balances {
				mark(b.Account, e.date, KAssert)
				if !open[b.Account] {
					return fail(e, b.Account, "account is not open")
				}
				if IsAL(b.Account) {
					have := pos[[2]string{b.Account, b.Com}]
					if have == nil {
						have = new(big.Rat)
					}
					if have.Cmp(R(b.Qty)) != 0 {
						return fail(e, b.Account, fmt.Sprintf("failed assertion: have %s %s", DecString(have), b.Com))
					}
				}
			}
		case KClose:
			mark(e.d.Account, e.date, KClose)
			if !open[e.d.Account] {
				return fail(e, e.d.Account, "account is not open")
			}
			for k, v := range pos {
				if k[0] == e.d.Account {
					if v.Sign() != 0 {
						return fail(e, e.d.Account, "account has nonzero position")
					}
				}
			}
			for k := range pos {
				if k[0] == e.d.Account {
					delete(pos, k)
				}
			}
			delete(open, e.d.Account)
		}
	}
	return Verdict{OK: true, SameDay: sameDay}
}
