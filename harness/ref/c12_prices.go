package ref

import (
	"math/big"
	"sort"
)

// Reference price graph for C12, written from the property statement:
//
//   - per unordered pair only the most recent declaration counts;
//   - the price of y expressed in x along the edge x→y is the declared price if the latest declaration
//     was `price y p x`, and 1/p truncated to 8 decimals if it was `price x p y`;
//   - the price of c in V is 1 for c = V, the edge value if {V,c} was ever declared, otherwise the
//     stepwise truncated product along a simple chain V = n0, n1, …, nk = c.
//
// Commodities are indices 0..N-1. All arithmetic is exact (math/big).

// C12Decl is the latest declaration of a pair: `price Com P Tgt`.
type C12Decl struct {
	Com, Tgt int
	P        *big.Rat
	Count    int  // how many (non-zero) declarations of this pair so far
	Flipped  bool // the pair has been declared in both directions
}

type C12Graph struct {
	N      int
	Latest map[[2]int]*C12Decl
}

func NewC12Graph(n int) *C12Graph {
	return &C12Graph{N: n, Latest: map[[2]int]*C12Decl{}}
}

func c12Key(a, b int) [2]int {
	if a > b {
		a, b = b, a
	}
	return [2]int{a, b}
}

// Declare records `price com p tgt` as the most recent declaration of {com,tgt}. Self pairs say nothing
// about any other commodity and are ignored.
func (g *C12Graph) Declare(com int, p *big.Rat, tgt int) {
	if com == tgt {
		return
	}
	k := c12Key(com, tgt)
	d := g.Latest[k]
	if d == nil {
		d = &C12Decl{}
		g.Latest[k] = d
	} else if d.Com != com {
		d.Flipped = true
	}
	d.Com, d.Tgt, d.P = com, tgt, new(big.Rat).Set(p)
	d.Count++
}

func (g *C12Graph) Has(a, b int) bool { return g.Latest[c12Key(a, b)] != nil }

var (
	c12Step  = big.NewRat(1, 100000000)                       // 1e-8
	c12Slack = new(big.Rat).SetFrac(big.NewInt(1), Pow10(16)) // 1e-16
	c12One   = big.NewRat(1, 1)
)

// C12Recip returns the acceptable values of "the reciprocal of p truncated to 8 decimals": the truncation of the
// exact quotient, and additionally the next 8-decimal value when the exact quotient lies within 1e-16 below it
// (knut divides with 16 digits and then truncates; in exactly that situation both results are accepted).
func C12Recip(p *big.Rat) (vals []*big.Rat, boundary bool) {
	q := new(big.Rat).Inv(p)
	t := Trunc8(q)
	vals = []*big.Rat{t}
	var next *big.Rat
	if q.Sign() >= 0 {
		next = Add(t, c12Step)
	} else {
		next = Sub(t, c12Step)
	}
	if gap := Abs(Sub(next, q)); gap.Cmp(c12Slack) <= 0 {
		vals = append(vals, next)
		boundary = true
	}
	return vals, boundary
}

// Edge returns the acceptable values of the price of y expressed in x from the latest declaration of {x,y}.
func (g *C12Graph) Edge(x, y int) (vals []*big.Rat, inverse, boundary, ok bool) {
	d := g.Latest[c12Key(x, y)]
	if d == nil {
		return nil, false, false, false
	}
	if d.Com == y { // price y p x
		return []*big.Rat{d.P}, false, false, true
	}
	vals, boundary = C12Recip(d.P)
	return vals, true, boundary, true
}

// C12Path is one simple chain from V to a commodity with the values it can produce.
type C12Path struct {
	Nodes    []int
	Vals     []*big.Rat
	Inverse  bool // uses at least one reciprocal
	Boundary bool // uses a reciprocal at a 16-digit rounding boundary
}

// C12Answer is what the statement allows for the price of C in V.
type C12Answer struct {
	C         int
	Connected bool
	Direct    bool       // {V,C} has been declared (or C == V): Strict is binding
	Strict    []*big.Rat // acceptable values when Direct
	Paths     []C12Path  // every simple chain from V to C (the direct edge is the chain of length 1)
}

// Allowed returns all values the statement allows.
func (a *C12Answer) Allowed() []*big.Rat {
	if a.Direct {
		return a.Strict
	}
	var vs []*big.Rat
	for _, p := range a.Paths {
		vs = append(vs, p.Vals...)
	}
	return vs
}

// OnSomeChain reports whether x is the stepwise product along some simple chain (including the direct edge).
func (a *C12Answer) OnSomeChain(x *big.Rat) *C12Path {
	for i := range a.Paths {
		for _, v := range a.Paths[i].Vals {
			if v.Cmp(x) == 0 {
				return &a.Paths[i]
			}
		}
	}
	return nil
}

func (a *C12Answer) MinLen() int {
	m := 0
	for _, p := range a.Paths {
		if l := len(p.Nodes) - 1; m == 0 || l < m {
			m = l
		}
	}
	return m
}

func C12Contains(vs []*big.Rat, x *big.Rat) bool {
	for _, v := range vs {
		if v.Cmp(x) == 0 {
			return true
		}
	}
	return false
}

// Answers computes, for valuation commodity v, what the statement allows for every commodity.
func (g *C12Graph) Answers(v int) []C12Answer {
	adj := make([][]int, g.N)
	for k := range g.Latest {
		adj[k[0]] = append(adj[k[0]], k[1])
		adj[k[1]] = append(adj[k[1]], k[0])
	}
	for i := range adj {
		sort.Ints(adj[i])
	}
	res := make([]C12Answer, g.N)
	for i := range res {
		res[i].C = i
	}
	res[v].Connected, res[v].Direct, res[v].Strict = true, true, []*big.Rat{c12One}
	onPath := make([]bool, g.N)
	var walk func(nodes []int, vals []*big.Rat, inv, bnd bool)
	walk = func(nodes []int, vals []*big.Rat, inv, bnd bool) {
		cur := nodes[len(nodes)-1]
		for _, nx := range adj[cur] {
			if onPath[nx] {
				continue
			}
			ev, einv, ebnd, _ := g.Edge(cur, nx)
			var nv []*big.Rat
			for _, r := range vals {
				for _, e := range ev {
					x := Trunc8(Mul(e, r))
					if !C12Contains(nv, x) {
						nv = append(nv, x)
					}
				}
			}
			nn := append(append([]int{}, nodes...), nx)
			a := &res[nx]
			a.Connected = true
			a.Paths = append(a.Paths, C12Path{Nodes: nn, Vals: nv, Inverse: inv || einv, Boundary: bnd || ebnd})
			if len(nn) == 2 {
				a.Direct = true
				a.Strict = nv
			}
			onPath[nx] = true
			walk(nn, nv, inv || einv, bnd || ebnd)
			onPath[nx] = false
		}
	}
	onPath[v] = true
	walk([]int{v}, []*big.Rat{c12One}, false, false)
	return res
}

// OnCycle reports whether v lies on a cycle of the pair graph, i.e. some commodity declared directly against v
// can also be reached from v by another chain.
func (g *C12Graph) OnCycle(v int) bool {
	adj := make([][]int, g.N)
	for k := range g.Latest {
		adj[k[0]] = append(adj[k[0]], k[1])
		adj[k[1]] = append(adj[k[1]], k[0])
	}
	for _, n := range adj[v] {
		// can n reach another neighbour of v without passing through v?
		seen := make([]bool, g.N)
		seen[v], seen[n] = true, true
		stack := []int{n}
		for len(stack) > 0 {
			x := stack[len(stack)-1]
			stack = stack[:len(stack)-1]
			for _, y := range adj[x] {
				if y == v && x != n {
					return true
				}
				if !seen[y] {
					seen[y] = true
					stack = append(stack, y)
				}
			}
		}
	}
	return false
}
