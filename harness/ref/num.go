package ref

import (
	"fmt"
	"math/big"
	"strings"
)

// R parses a decimal string ("-12.340") into an exact rational.
func R(s string) *big.Rat {
	r, ok := new(big.Rat).SetString(s)
	if !ok {
		panic(fmt.Sprintf("bad decimal %q", s))
	}
	return r
}

// ParseDec parses a decimal string; ok=false if malformed.
func ParseDec(s string) (*big.Rat, bool) {
	s = strings.TrimSpace(s)
	if s == "" {
		return nil, false
	}
	for i, c := range s {
		if !(c >= '0' && c <= '9' || c == '.' || (c == '-' && i == 0)) {
			return nil, false
		}
	}
	return new(big.Rat).SetString(s)
}

func Zero() *big.Rat { return new(big.Rat) }

func Add(a, b *big.Rat) *big.Rat { return new(big.Rat).Add(a, b) }
func Sub(a, b *big.Rat) *big.Rat { return new(big.Rat).Sub(a, b) }
func Mul(a, b *big.Rat) *big.Rat { return new(big.Rat).Mul(a, b) }
func Neg(a *big.Rat) *big.Rat    { return new(big.Rat).Neg(a) }
func Abs(a *big.Rat) *big.Rat    { return new(big.Rat).Abs(a) }

var pow10 = map[int]*big.Int{}

func Pow10(n int) *big.Int {
	if p, ok := pow10[n]; ok {
		return p
	}
	return new(big.Int).Exp(big.NewInt(10), big.NewInt(int64(n)), nil)
}

// TruncN truncates toward zero at n decimals.
func TruncN(x *big.Rat, n int) *big.Rat {
	scale := Pow10(n)
	num := new(big.Int).Mul(x.Num(), scale)
	q := new(big.Int).Quo(num, x.Denom()) // Quo truncates toward zero
	return new(big.Rat).SetFrac(q, scale)
}

func Trunc8(x *big.Rat) *big.Rat { return TruncN(x, 8) }

// RoundHalfAway rounds to n decimals, half away from zero.
func RoundHalfAway(x *big.Rat, n int) *big.Rat {
	scale := Pow10(n)
	num := new(big.Int).Mul(x.Num(), scale)
	num.Mul(num, big.NewInt(2))
	den := new(big.Int).Mul(x.Denom(), big.NewInt(2))
	// add ±denom (i.e. ±0.5 after scaling) then truncate
	if x.Sign() >= 0 {
		num.Add(num, x.Denom())
	} else {
		num.Sub(num, x.Denom())
	}
	q := new(big.Int).Quo(num, den)
	return new(big.Rat).SetFrac(q, scale)
}

// FixedString renders x (which must have at most n decimals) with exactly n decimals.
func FixedString(x *big.Rat, n int) string {
	return x.FloatString(n)
}

// DecString renders a rational that is a finite decimal without trailing zeros.
func DecString(x *big.Rat) string {
	for n := 0; n <= 40; n++ {
		if TruncN(x, n).Cmp(x) == 0 {
			return x.FloatString(n)
		}
	}
	return x.FloatString(40) + "…"
}

// Decimals returns the number of decimals needed to write x exactly (≤ 60), or -1.
func Decimals(x *big.Rat) int {
	for n := 0; n <= 60; n++ {
		if TruncN(x, n).Cmp(x) == 0 {
			return n
		}
	}
	return -1
}
