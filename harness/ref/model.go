package ref

import (
	"fmt"
	"sort"
	"strings"
)

// Directive kinds.
const (
	KOpen    = "open"
	KClose   = "close"
	KPrice   = "price"
	KTrx     = "trx"
	KAssert  = "assert"
	KInclude = "include"
)

type Booking struct {
	Credit string `json:"cr"`
	Debit  string `json:"dr"`
	Qty    string `json:"q"`
	Com    string `json:"c"`
}

type Balance struct {
	Account string `json:"a"`
	Qty     string `json:"q"`
	Com     string `json:"c"`
}

type Accrual struct {
	Interval string `json:"iv"`
	Start    Day    `json:"s"`
	End      Day    `json:"e"`
	Account  string `json:"a"`
}

// Directive is the harness's own model of a journal directive. Amounts are
// decimal strings exactly as written in the file.
type Directive struct {
	Kind     string    `json:"k"`
	Date     Day       `json:"d"`
	Account  string    `json:"a,omitempty"` // open / close
	Com      string    `json:"c,omitempty"` // price: commodity
	Target   string    `json:"t,omitempty"` // price: target commodity
	Price    string    `json:"p,omitempty"` // price
	Desc     string    `json:"desc,omitempty"`
	Bookings []Booking `json:"b,omitempty"`
	Accrual  *Accrual  `json:"acc,omitempty"`
	HasPerf  bool      `json:"hp,omitempty"`
	Perf     []string  `json:"perf,omitempty"`
	Balances []Balance `json:"bal,omitempty"`
	Path     string    `json:"path,omitempty"` // include
}

// KindRank is the intra-day processing order: prices, opens, transactions,
// assertions, closes.
func KindRank(k string) int {
	switch k {
	case KPrice:
		return 0
	case KOpen:
		return 1
	case KTrx:
		return 2
	case KAssert:
		return 3
	case KClose:
		return 4
	}
	return 5
}

// Render writes the directive in a plain, valid layout, terminated so that
// any other directive may follow directly (transactions and multi-line
// assertions end with a blank line).
func (d Directive) Render() string {
	var b strings.Builder
	switch d.Kind {
	case KOpen:
		fmt.Fprintf(&b, "%s open %s\n", d.Date, d.Account)
	case KClose:
		fmt.Fprintf(&b, "%s close %s\n", d.Date, d.Account)
	case KPrice:
		fmt.Fprintf(&b, "%s price %s %s %s\n", d.Date, d.Com, d.Price, d.Target)
	case KInclude:
		fmt.Fprintf(&b, "include \"%s\"\n", d.Path)
	case KAssert:
		if len(d.Balances) == 1 {
			bal := d.Balances[0]
			fmt.Fprintf(&b, "%s balance %s %s %s\n", d.Date, bal.Account, bal.Qty, bal.Com)
		} else {
			fmt.Fprintf(&b, "%s balance\n", d.Date)
			for _, bal := range d.Balances {
				fmt.Fprintf(&b, "%s %s %s\n", bal.Account, bal.Qty, bal.Com)
			}
			b.WriteString("\n")
		}
	case KTrx:
		if d.Accrual != nil {
			fmt.Fprintf(&b, "@accrue %s %s %s %s\n", d.Accrual.Interval, d.Accrual.Start, d.Accrual.End, d.Accrual.Account)
		}
		if d.HasPerf {
			fmt.Fprintf(&b, "@performance(%s)\n", strings.Join(d.Perf, ","))
		}
		fmt.Fprintf(&b, "%s \"%s\"\n", d.Date, d.Desc)
		for _, bk := range d.Bookings {
			fmt.Fprintf(&b, "%s %s %s %s\n", bk.Credit, bk.Debit, bk.Qty, bk.Com)
		}
		b.WriteString("\n")
	}
	return b.String()
}

// RenderAll renders directives in the given order.
func RenderAll(ds []Directive) string {
	var b strings.Builder
	for _, d := range ds {
		b.WriteString(d.Render())
	}
	return b.String()
}

// Journal is a generated journal with the universe it was drawn from.
type Journal struct {
	Directives  []Directive `json:"directives"`
	Accounts    []string    `json:"accounts,omitempty"`
	Commodities []string    `json:"commodities,omitempty"`
}

func (j Journal) Text() string { return RenderAll(j.Directives) }

// Dates returns min and max dates over transactions (expanded dates are not
// included) and prices.
func (j Journal) Span() (min, max Day, ok bool) {
	first := true
	for _, d := range j.Directives {
		if d.Kind == KInclude {
			continue
		}
		if first || d.Date < min {
			min = d.Date
		}
		if first || d.Date > max {
			max = d.Date
		}
		first = false
	}
	return min, max, !first
}

// UsedCommodities lists the commodities appearing in bookings, sorted.
func (j Journal) UsedCommodities() []string {
	set := map[string]bool{}
	for _, d := range j.Directives {
		for _, b := range d.Bookings {
			set[b.Com] = true
		}
	}
	var res []string
	for c := range set {
		res = append(res, c)
	}
	sort.Strings(res)
	return res
}

// AccountType returns the first segment of an account name.
func AccountType(a string) string {
	if i := strings.IndexByte(a, ':'); i >= 0 {
		return a[:i]
	}
	return a
}

func IsAL(a string) bool {
	t := AccountType(a)
	return t == "Assets" || t == "Liabilities"
}

func IsIE(a string) bool {
	t := AccountType(a)
	return t == "Income" || t == "Expenses"
}
