// Package ref holds the reference models the oracles are built from. They
// follow the property statements, use exact arithmetic (math/big) and their
// own civil calendar; nothing here calls into knut.
package ref

import "fmt"

// Day is a civil date as days since 1970-01-01 (proleptic Gregorian).
type Day int

// FromCivil converts y-m-d to a Day (Howard Hinnant's days_from_civil).
func FromCivil(y, m, d int) Day {
	if m <= 2 {
		y--
	}
	var era int
	if y >= 0 {
		era = y / 400
	} else {
		era = (y - 399) / 400
	}
	yoe := y - era*400
	mp := (m + 9) % 12
	doy := (153*mp+2)/5 + d - 1
	doe := yoe*365 + yoe/4 - yoe/100 + doy
	return Day(era*146097 + doe - 719468)
}

// Civil converts back to y, m, d.
func (dn Day) Civil() (int, int, int) {
	z := int(dn) + 719468
	var era int
	if z >= 0 {
		era = z / 146097
	} else {
		era = (z - 146096) / 146097
	}
	doe := z - era*146097
	yoe := (doe - doe/1460 + doe/36524 - doe/146096) / 365
	y := yoe + era*400
	doy := doe - (365*yoe + yoe/4 - yoe/100)
	mp := (5*doy + 2) / 153
	d := doy - (153*mp+2)/5 + 1
	m := mp + 3
	if m > 12 {
		m -= 12
	}
	if m <= 2 {
		y++
	}
	return y, m, d
}

func (dn Day) String() string {
	y, m, d := dn.Civil()
	return fmt.Sprintf("%04d-%02d-%02d", y, m, d)
}

// ParseDay parses YYYY-MM-DD (no validation beyond the shape).
func ParseDay(s string) (Day, error) {
	var y, m, d int
	if len(s) != 10 || s[4] != '-' || s[7] != '-' {
		return 0, fmt.Errorf("bad date %q", s)
	}
	if _, err := fmt.Sscanf(s, "%04d-%02d-%02d", &y, &m, &d); err != nil {
		return 0, err
	}
	dn := FromCivil(y, m, d)
	if dn.String() != s {
		return 0, fmt.Errorf("invalid date %q", s)
	}
	return dn, nil
}

func MustDay(s string) Day {
	d, err := ParseDay(s)
	if err != nil {
		panic(err)
	}
	return d
}

// Weekday returns 0 for Monday … 6 for Sunday. 1970-01-01 was a Thursday.
func (dn Day) Weekday() int {
	w := (int(dn) + 3) % 7
	if w < 0 {
		w += 7
	}
	return w
}

func IsLeap(y int) bool { return y%4 == 0 && (y%100 != 0 || y%400 == 0) }

func DaysIn(y, m int) int {
	switch m {
	case 2:
		if IsLeap(y) {
			return 29
		}
		return 28
	case 4, 6, 9, 11:
		return 30
	}
	return 31
}

// Interval names the six reporting intervals.
type Interval int

const (
	Once Interval = iota
	Daily
	Weekly
	Monthly
	Quarterly
	Yearly
)

var IntervalNames = []string{"once", "daily", "weekly", "monthly", "quarterly", "yearly"}

// IntervalFlags are the CLI flags selecting them ("" = default once).
var IntervalFlags = []string{"", "--days", "--weeks", "--months", "--quarters", "--years"}

func (iv Interval) String() string { return IntervalNames[iv] }

func ParseIntervalName(s string) (Interval, bool) {
	for i, n := range IntervalNames {
		if n == s {
			return Interval(i), true
		}
	}
	return Once, false
}

// UnitStart is the first day of the calendar unit containing d.
func UnitStart(d Day, iv Interval) Day {
	y, m, _ := d.Civil()
	switch iv {
	case Weekly:
		return d - Day(d.Weekday())
	case Monthly:
		return FromCivil(y, m, 1)
	case Quarterly:
		return FromCivil(y, 3*((m-1)/3)+1, 1)
	case Yearly:
		return FromCivil(y, 1, 1)
	}
	return d
}

// UnitEnd is the last day of the calendar unit containing d.
func UnitEnd(d Day, iv Interval) Day {
	y, m, _ := d.Civil()
	switch iv {
	case Weekly:
		return d + Day(6-d.Weekday())
	case Monthly:
		return FromCivil(y, m, DaysIn(y, m))
	case Quarterly:
		qm := 3*((m-1)/3) + 3
		return FromCivil(y, qm, DaysIn(y, qm))
	case Yearly:
		return FromCivil(y, 12, 31)
	}
	return d
}

type Period struct{ Start, End Day }

// Partition splits [start,end] into the calendar units of iv, clipped to the
// window, keeping only the last `last` periods when last > 0. start > end
// gives no periods (except for Once, which is the window as given).
func Partition(start, end Day, iv Interval, last int) []Period {
	if iv == Once {
		return []Period{{start, end}}
	}
	var rev []Period
	e := end
	for e >= start && !(last > 0 && len(rev) >= last) {
		s := UnitStart(e, iv)
		if s < start {
			s = start
		}
		rev = append(rev, Period{s, e})
		e = s - 1
	}
	res := make([]Period, len(rev))
	for i := range rev {
		res[len(rev)-1-i] = rev[i]
	}
	return res
}

// Column attributes a date to a period index: the first period whose end is
// not before d; ok=false when d lies after the last period.
func Column(ps []Period, d Day) (int, bool) {
	for i, p := range ps {
		if p.End >= d {
			return i, true
		}
	}
	return 0, false
}

// Days are written as YYYY-MM-DD in JSON (replay files, evidence samples).
func (dn Day) MarshalJSON() ([]byte, error) { return []byte(`"` + dn.String() + `"`), nil }

func (dn *Day) UnmarshalJSON(b []byte) error {
	s := string(b)
	if len(s) >= 2 && s[0] == '"' {
		d, err := ParseDay(s[1 : len(s)-1])
		if err != nil {
			return err
		}
		*dn = d
		return nil
	}
	var n int
	if _, err := fmt.Sscanf(s, "%d", &n); err != nil {
		return err
	}
	*dn = Day(n)
	return nil
}
