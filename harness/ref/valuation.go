package ref

import (
	"fmt"
	"math/big"
	"sort"
)

// PriceBook answers "price of commodity c in V as of day d" from the price
// directives of a journal: per unordered pair the latest declaration on or
// before d counts (arrival order breaks ties within a day); the price of y
// expressed in x is p for `price y p x` and trunc8(1/p) for `price x p y`;
// along a chain V = n0 … nk the price is r0 = 1, r(i+1) = trunc8(edge · r(i)).
// The graph is searched breadth-first from V with neighbours in name order;
// for forests (the only graphs the valuation properties generate) the chain
// is unique, so the search order does not matter.
type PriceBook struct {
	decls []Directive // price directives sorted by (date, arrival)
}

func NewPriceBook(ds []Directive) *PriceBook {
	pb := &PriceBook{}
	for _, d := range ds {
		if d.Kind == KPrice {
			pb.decls = append(pb.decls, d)
		}
	}
	sort.SliceStable(pb.decls, func(i, j int) bool { return pb.decls[i].Date < pb.decls[j].Date })
	return pb
}

// PriceDays lists the distinct days carrying a price directive, ascending.
func (pb *PriceBook) PriceDays() []Day {
	var res []Day
	for _, d := range pb.decls {
		if len(res) == 0 || res[len(res)-1] != d.Date {
			res = append(res, d.Date)
		}
	}
	return res
}

// Normalized returns the price of every reachable commodity in v as of day.
func (pb *PriceBook) Normalized(v string, day Day) map[string]*big.Rat {
	// edge[x][y] = price of y expressed in x
	edge := map[string]map[string]*big.Rat{}
	set := func(x, y string, p *big.Rat) {
		if edge[x] == nil {
			edge[x] = map[string]*big.Rat{}
		}
		edge[x][y] = p
	}
	one := big.NewRat(1, 1)
	for _, d := range pb.decls {
		if d.Date > day {
			break
		}
		p := R(d.Price)
		if p.Sign() == 0 {
			continue
		}
		set(d.Target, d.Com, p)
		set(d.Com, d.Target, Trunc8(new(big.Rat).Quo(one, p)))
	}
	res := map[string]*big.Rat{v: big.NewRat(1, 1)}
	queue := []string{v}
	for len(queue) > 0 {
		c := queue[0]
		queue = queue[1:]
		var ns []string
		for n := range edge[c] {
			if _, done := res[n]; !done {
				ns = append(ns, n)
			}
		}
		sort.Strings(ns)
		for _, n := range ns {
			res[n] = Trunc8(Mul(edge[c][n], res[c]))
			queue = append(queue, n)
		}
	}
	return res
}

// MissingPrice reports a valuation that needs a price that does not exist.
type MissingPrice struct {
	Com  string
	Date Day
}

func (m *MissingPrice) Error() string { return fmt.Sprintf("no price for %s on %s", m.Com, m.Date) }

// VEntry is one valued posting half (user booking valued at the booking
// day's price, or one side of a daily value adjustment).
type VEntry struct {
	Half
	Value *big.Rat
	Adj   bool
	Trx   int // entries with the same Trx belong to one (expanded or adjustment) transaction
}

// ValueJournal produces the valued transaction list of a journal in V (App.
// B.5): every booking half valued trunc8(x · price(c, V, date)) (x itself for
// c = V), plus, for every day whose prices changed and every asset/liability
// position (a, c ≠ V) that was non-zero at the start of that day, an
// adjustment pair (a, +g), (Income:<a without its first segment>, −g) with
// g = trunc8((p_today − p_previous) · qty). Entries are in (date, kind) order
// with adjustments first on their day.
func ValueJournal(ds []Directive, v string) ([]VEntry, *MissingPrice) {
	return valueJournal(ds, v, false)
}

// ValueJournalIdeal is ValueJournal without the truncation of the individual
// values and adjustments (prices are still the chain-truncated prices of the
// statement): the sum of an account's entries up to a day is then exactly
// quantity times price, which is what the statement of C03 promises up to
// one unit of the 8th decimal per arithmetic step.
func ValueJournalIdeal(ds []Directive, v string) ([]VEntry, *MissingPrice) {
	return valueJournal(ds, v, true)
}

func valueJournal(ds []Directive, v string, ideal bool) ([]VEntry, *MissingPrice) {
	tr := Trunc8
	if ideal {
		tr = func(x *big.Rat) *big.Rat { return x }
	}
	ts, ok := ExpandAll(ds)
	if !ok {
		return nil, &MissingPrice{Com: "<empty accrual>"}
	}
	pb := NewPriceBook(ds)
	sort.SliceStable(ts, func(i, j int) bool { return ts[i].Date < ts[j].Date })
	days := map[Day]bool{}
	for _, t := range ts {
		days[t.Date] = true
	}
	for _, d := range pb.PriceDays() {
		days[d] = true
	}
	var order []Day
	for d := range days {
		order = append(order, d)
	}
	sort.Slice(order, func(i, j int) bool { return order[i] < order[j] })
	type pk struct{ acc, com string }
	qty := map[pk]*big.Rat{}
	var entries []VEntry
	var prev map[string]*big.Rat
	ti := 0
	priceDay := map[Day]bool{}
	for _, d := range pb.PriceDays() {
		priceDay[d] = true
	}
	cur := map[string]*big.Rat(nil)
	trxID := 0
	for _, day := range order {
		if priceDay[day] || cur == nil {
			if priceDay[day] {
				cur = pb.Normalized(v, day)
			}
		}
		// adjustments for positions held at the start of the day
		if priceDay[day] && prev != nil {
			var keys []pk
			for k, q := range qty {
				if k.com != v && q.Sign() != 0 {
					keys = append(keys, k)
				}
			}
			sort.Slice(keys, func(i, j int) bool { return keys[i].acc+"\x00"+keys[i].com < keys[j].acc+"\x00"+keys[j].com })
			for _, k := range keys {
				pp, ok1 := prev[k.com]
				cp, ok2 := cur[k.com]
				if !ok1 || !ok2 {
					return entries, &MissingPrice{Com: k.com, Date: day}
				}
				delta := Sub(cp, pp)
				if delta.Sign() == 0 {
					continue
				}
				g := tr(Mul(delta, qty[k]))
				mirror := ValuationAccount(k.acc)
				trxID++
				entries = append(entries,
					VEntry{Half: Half{Date: day, Account: k.acc, Other: mirror, Qty: new(big.Rat), Com: k.com, Src: -1}, Value: g, Adj: true, Trx: trxID},
					VEntry{Half: Half{Date: day, Account: mirror, Other: k.acc, Qty: new(big.Rat), Com: k.com, Src: -1}, Value: Neg(g), Adj: true, Trx: trxID})
			}
		}
		for ti < len(ts) && ts[ti].Date == day {
			trxID++
			for _, h := range ts[ti].Halves() {
				if h.Qty.Sign() == 0 {
					entries = append(entries, VEntry{Half: h, Value: new(big.Rat), Trx: trxID})
					continue
				}
				if IsAL(h.Account) {
					k := pk{h.Account, h.Com}
					if qty[k] == nil {
						qty[k] = new(big.Rat)
					}
					qty[k].Add(qty[k], h.Qty)
				}
				if h.Com == v {
					entries = append(entries, VEntry{Half: h, Value: new(big.Rat).Set(h.Qty), Trx: trxID})
					continue
				}
				p, ok := cur[h.Com]
				if !ok {
					return entries, &MissingPrice{Com: h.Com, Date: day}
				}
				entries = append(entries, VEntry{Half: h, Value: tr(Mul(h.Qty, p)), Trx: trxID})
			}
			ti++
		}
		if cur != nil {
			prev = cur
		}
	}
	return entries, nil
}

// ValuationAccount is the income account mirroring an account's path.
func ValuationAccount(a string) string {
	for i := 0; i < len(a); i++ {
		if a[i] == ':' {
			return "Income" + a[i:]
		}
	}
	return "Income"
}
