package ref

import (
	"math/big"
	"regexp"
	"sort"
	"strings"
)

// MapRule is one -m rule of the balance command.
type MapRule struct {
	Level, Suffix int
	Regex         string
	HasRe         bool
}

// LedgerFlags are the flags of an unvalued balance report that the reference ledger understands.
type LedgerFlags struct {
	From, To       *Day
	Interval       Interval
	Last           int
	Diff           bool
	Close          bool
	AccountRes     []string
	CommodityRes   []string
	Mappings       []MapRule
	Remap          []string
	MapBeforeRemap bool // variant: apply -m before --remap (the statement does not fix the order)
}

// Ledger is the expected content of an unvalued balance report.
type Ledger struct {
	Columns []Day
	// Cells: account → commodity → displayed value per column (E/I/E rows negated)
	Cells map[string]map[string][]*big.Rat
	// Rows: every account that must appear as a row (booked accounts and their ancestors)
	Rows     map[string]bool
	TotalAL  map[string][]*big.Rat
	TotalEIE map[string][]*big.Rat // displayed (negated)
	Delta    map[string][]*big.Rat
	// stats for non-triviality
	InWindowBookings int
	NonZeroCells     int
	Closings         int
}

func matchAny(res []*regexp.Regexp, s string) bool {
	for _, r := range res {
		if r.MatchString(s) {
			return true
		}
	}
	return false
}

func compileAll(ss []string) ([]*regexp.Regexp, error) {
	var res []*regexp.Regexp
	for _, s := range ss {
		r, err := regexp.Compile(s)
		if err != nil {
			return nil, err
		}
		res = append(res, r)
	}
	return res, nil
}

func swapType(a string) string {
	segs := strings.SplitN(a, ":", 2)
	rest := ""
	if len(segs) == 2 {
		rest = ":" + segs[1]
	}
	switch segs[0] {
	case "Assets":
		return "Liabilities" + rest
	case "Liabilities":
		return "Assets" + rest
	case "Income":
		return "Expenses" + rest
	case "Expenses":
		return "Income" + rest
	}
	return a
}

// shorten applies the first matching rule; ok=false means the account is hidden (level 0).
func shorten(a string, rules []MapRule, res []*regexp.Regexp) (string, bool) {
	for i, r := range rules {
		if r.HasRe && !res[i].MatchString(a) {
			continue
		}
		if r.Level == 0 {
			return "", false
		}
		segs := strings.Split(a, ":")
		if r.Level+r.Suffix >= len(segs) {
			return a, true
		}
		out := append(append([]string{}, segs[:r.Level]...), segs[len(segs)-r.Suffix:]...)
		return strings.Join(out, ":"), true
	}
	return a, true
}

// JournalPeriod is the period knut derives from a journal: first transaction
// date (after accrual expansion) to the last transaction-or-price date.
func JournalPeriod(ds []Directive, ts []ETrx) (min, max Day, hasTrx bool) {
	first := true
	for _, t := range ts {
		if first || t.Date < min {
			min = t.Date
		}
		if first || t.Date > max {
			max = t.Date
		}
		first = false
	}
	hasTrx = !first
	for _, d := range ds {
		if d.Kind == KPrice && (first || d.Date > max) {
			if first {
				min = d.Date
			}
			max = d.Date
			first = false
		}
	}
	return min, max, hasTrx
}

// ComputeLedger evaluates the statement of C02 on a journal.
func ComputeLedger(ds []Directive, f LedgerFlags) (*Ledger, error) {
	ts, ok := ExpandAll(ds)
	if !ok {
		return nil, errEmptyAccrual
	}
	var halves []Half
	for _, t := range ts {
		halves = append(halves, t.Halves()...)
	}
	min, max, _ := JournalPeriod(ds, ts)
	return ComputeLedgerFromHalves(halves, min, max, f)
}

// ComputeLedgerFromHalves is the report pipeline on signed amounts (quantities,
// or values for a valued report): window, partition, period closing, filters,
// mapping, cells, totals.
func ComputeLedgerFromHalves(all []Half, min, max Day, f LedgerFlags) (*Ledger, error) {
	accRes, err := compileAll(f.AccountRes)
	if err != nil {
		return nil, err
	}
	comRes, err := compileAll(f.CommodityRes)
	if err != nil {
		return nil, err
	}
	remapRes, err := compileAll(f.Remap)
	if err != nil {
		return nil, err
	}
	var mapRes []*regexp.Regexp
	for _, m := range f.Mappings {
		r, err := regexp.Compile(m.Regex)
		if err != nil {
			return nil, err
		}
		mapRes = append(mapRes, r)
	}
	start, end := min, max
	if f.From != nil && *f.From > start {
		start = *f.From
	}
	if f.To != nil && *f.To < end {
		end = *f.To
	}
	periods := Partition(start, end, f.Interval, f.Last)
	L := &Ledger{Cells: map[string]map[string][]*big.Rat{}, Rows: map[string]bool{}, TotalAL: map[string][]*big.Rat{}, TotalEIE: map[string][]*big.Rat{}, Delta: map[string][]*big.Rat{}}
	for _, p := range periods {
		L.Columns = append(L.Columns, p.End)
	}
	n := len(periods)
	// in-window halves in (date, arrival) order
	var halves []Half
	for i, h := range all {
		if h.Date < start || h.Date > end {
			continue
		}
		h.Seq = i
		halves = append(halves, h)
	}
	L.InWindowBookings = len(halves) / 2
	sort.SliceStable(halves, func(i, j int) bool { return halves[i].Date < halves[j].Date })
	// period closing: at the start of every shown period the running total of each
	// income/expense account is booked over to Equity:Equity
	if f.Close && start <= end {
		type key struct{ acc, com string }
		var closing []Half
		run := map[key]*big.Rat{}
		idx := 0
		for _, p := range periods {
			for idx < len(halves) && halves[idx].Date < p.Start {
				h := halves[idx]
				idx++
				if !IsIE(h.Account) {
					continue
				}
				k := key{h.Account, h.Com}
				if run[k] == nil {
					run[k] = new(big.Rat)
				}
				run[k].Add(run[k], h.Qty)
			}
			var keys []key
			for k, v := range run {
				if v.Sign() != 0 {
					keys = append(keys, k)
				}
			}
			sort.Slice(keys, func(i, j int) bool { return keys[i].acc+"\x00"+keys[i].com < keys[j].acc+"\x00"+keys[j].com })
			for _, k := range keys {
				T := run[k]
				closing = append(closing,
					Half{Date: p.Start, Account: k.acc, Other: "Equity:Equity", Qty: Neg(T), Com: k.com, Src: -1},
					Half{Date: p.Start, Account: "Equity:Equity", Other: k.acc, Qty: new(big.Rat).Set(T), Com: k.com, Src: -1})
				run[k] = new(big.Rat)
				L.Closings++
			}
		}
		halves = append(halves, closing...)
	}
	if n == 0 {
		return L, nil
	}
	mapAccount := func(a string) (string, bool) {
		if f.MapBeforeRemap {
			m, ok := shorten(a, f.Mappings, mapRes)
			if !ok {
				return "", false
			}
			if matchAny(remapRes, m) {
				m = swapType(m)
			}
			return m, true
		}
		if matchAny(remapRes, a) {
			a = swapType(a)
		}
		return shorten(a, f.Mappings, mapRes)
	}
	// per-column raw sums
	raw := map[string]map[string][]*big.Rat{}
	for _, h := range halves {
		if len(accRes) > 0 && !matchAny(accRes, h.Account) {
			continue
		}
		if len(comRes) > 0 && !matchAny(comRes, h.Com) {
			continue
		}
		col, ok := Column(periods, h.Date)
		if !ok {
			continue
		}
		m, shown := mapAccount(h.Account)
		if !shown {
			// hidden by a level-0 mapping: appears in no row and no total; Delta (the sum of what is
			// shown) therefore carries the imbalance
			continue
		}
		addCell(raw, m, h.Com, col, n, h.Qty)
		segs := strings.Split(m, ":")
		for i := 1; i <= len(segs); i++ {
			L.Rows[strings.Join(segs[:i], ":")] = true
		}
	}
	for acc, byCom := range raw {
		eie := !IsAL(acc)
		for com, cols := range byCom {
			disp := make([]*big.Rat, n)
			run := new(big.Rat)
			for i := 0; i < n; i++ {
				v := cols[i]
				if v == nil {
					v = new(big.Rat)
				}
				var cell *big.Rat
				if f.Diff {
					cell = new(big.Rat).Set(v)
				} else {
					run = Add(run, v)
					cell = new(big.Rat).Set(run)
				}
				// totals and delta are built from the unsigned (raw) values
				if eie {
					addTo(L.TotalEIE, com, i, n, Neg(cell))
				} else {
					addTo(L.TotalAL, com, i, n, cell)
				}
				addTo(L.Delta, com, i, n, cell)
				if eie {
					cell = Neg(cell)
				}
				if cell.Sign() != 0 {
					L.NonZeroCells++
				}
				disp[i] = cell
			}
			if L.Cells[acc] == nil {
				L.Cells[acc] = map[string][]*big.Rat{}
			}
			L.Cells[acc][com] = disp
		}
	}
	return L, nil
}

type ledgerErr string

func (e ledgerErr) Error() string { return string(e) }

const errEmptyAccrual = ledgerErr("empty accrual window")

func addCell(m map[string]map[string][]*big.Rat, acc, com string, col, n int, x *big.Rat) {
	if m[acc] == nil {
		m[acc] = map[string][]*big.Rat{}
	}
	if m[acc][com] == nil {
		m[acc][com] = make([]*big.Rat, n)
	}
	if m[acc][com][col] == nil {
		m[acc][com][col] = new(big.Rat)
	}
	m[acc][com][col].Add(m[acc][com][col], x)
}

func addTo(m map[string][]*big.Rat, com string, col, n int, x *big.Rat) {
	if m[com] == nil {
		m[com] = make([]*big.Rat, n)
		for i := range m[com] {
			m[com][i] = new(big.Rat)
		}
	}
	m[com][col].Add(m[com][col], x)
}
