//go:build !no_c07

package props

import (
	"errors"
	"fmt"
	"os"
	"reflect"
	"strings"
	"testing"
	"time"
	"unicode"
	"unicode/utf8"

	"github.com/sboehler/knut/lib/syntax/directives"
	"github.com/sboehler/knut/lib/syntax/parser"
	"pgregory.net/rapid"

	"verifharness/gen"
)

// C07 — the parser is total and its tree is a lossless cover of the text.

type C07Case struct {
	Text   []byte `json:"text"` // base64 in JSON: arbitrary bytes
	Source string `json:"source"`
	Show   string `json:"show,omitempty"` // readable preview, ignored by the check
}

func init() { Register("C07", "parser", checkC07) }

type parseResult struct {
	file  directives.File
	err   error
	panic any
}

func parseGuarded(c C07Case, text string) parseResult {
	var r parseResult
	r.panic = Guard("C07", "parser", c, 30*time.Second, func() {
		p := parser.New(text, "mem.knut")
		if err := p.Advance(); err != nil {
			r.err = err
			return
		}
		r.file, r.err = p.ParseFile()
	})
	return r
}

var rangeType = reflect.TypeOf(directives.Range{})

func checkC07(c C07Case) Outcome {
	text := string(c.Text)
	o := Outcome{Labels: []string{"src:" + c.Source}}
	if !utf8.ValidString(text) {
		o.Labels = append(o.Labels, "invalid-utf8")
	}
	if strings.Contains(text, "\r") {
		o.Labels = append(o.Labels, "has-CR")
	}
	r := parseGuarded(c, text)
	if r.panic != nil {
		o.Violation = V("panic", "parser panicked: %v", r.panic)
		return o
	}
	if r.err != nil {
		o.Labels = append(o.Labels, "outcome:error")
		if c.Source == "valid" {
			o.Labels = append(o.Labels, "generator-bug:valid-rejected")
			if os.Getenv("VERIF_DEBUG") != "" {
				fmt.Printf("VALID REJECTED: %v\n%s\n-----\n", r.err, text)
			}
		}
		o.NonTrivial = len(r.file.Directives) >= 2
		o.Violation = checkParseError(text, r.err)
		return o
	}
	o.Labels = append(o.Labels, "outcome:tree")
	o.NonTrivial = len(r.file.Directives) >= 1
	for _, d := range r.file.Directives {
		o.Labels = append(o.Labels, fmt.Sprintf("kind:%T", d.Directive))
		switch x := d.Directive.(type) {
		case directives.Transaction:
			if !x.Addons.Accrual.Empty() {
				o.Labels = append(o.Labels, "accrual")
			}
			if !x.Addons.Performance.Empty() {
				o.Labels = append(o.Labels, "performance")
			}
		case directives.Assertion:
			if len(x.Balances) > 1 {
				o.Labels = append(o.Labels, "multi-assertion")
			}
		}
	}
	o.Violation = checkTree(text, r.file)
	return o
}

// checkParseError: every positioned error in the chain lies inside the input and renders.
func checkParseError(text string, err error) (v *Violation) {
	defer func() {
		if p := recover(); p != nil {
			v = V("error-render-panic", "rendering the error panicked: %v", p)
		}
	}()
	_ = err.Error()
	depth := 0
	positioned := 0
	for e := err; e != nil && depth < 200; depth++ {
		var de directives.Error
		switch x := e.(type) {
		case directives.Error:
			de = x
		case *directives.Error:
			de = *x
		default:
			e = errors.Unwrap(e)
			continue
		}
		positioned++
		if de.Start < 0 || de.End < de.Start || de.End > len(text) {
			return V("error-position", "error range [%d,%d) outside input of length %d: %q", de.Start, de.End, len(text), de.Message)
		}
		if de.Text != text {
			// an error whose range carries another text (or none) has no position in this input
			return V("error-text", "an error of the chain does not refer to the input: text of length %d, message %q, rendered %q", len(de.Text), de.Message, clip(de.Error(), 200))
		}
		{
			_ = de.Error()
			loc := de.Location()
			if loc.Line < 1 || loc.Col < 1 {
				return V("error-location", "location %v is not positive", loc)
			}
			for k := 0; k < 3; k++ {
				_ = de.Context(k)
			}
		}
		e = de.Wrapped
	}
	if positioned == 0 {
		return V("error-unpositioned", "parser error carries no position: %v", err)
	}
	return nil
}

func checkTree(text string, f directives.File) (v *Violation) {
	defer func() {
		if p := recover(); p != nil {
			v = V("tree-walk-panic", "walking the tree panicked: %v", p)
		}
	}()
	if f.Start != 0 || f.End != len(text) || f.Text != text {
		return V("file-range", "file range [%d,%d) text-match=%v, want [0,%d)", f.Start, f.End, f.Text == text, len(text))
	}
	pos := 0
	var rebuilt strings.Builder
	for i, d := range f.Directives {
		if d.Text != text {
			return V("range-text", "directive %d refers to a different text", i)
		}
		if d.Start < pos || d.End <= d.Start || d.End > len(text) {
			return V("directive-order", "directive %d has range [%d,%d) after position %d (len %d)", i, d.Start, d.End, pos, len(text))
		}
		if gv := checkGap(text[pos:d.Start], pos == 0, false); gv != nil {
			return gv.With("gap_before_directive", fmt.Sprint(i))
		}
		rebuilt.WriteString(text[pos:d.Start])
		rebuilt.WriteString(d.Extract())
		pos = d.End
		// the wrapper and the concrete directive cover the same text
		inner := reflect.ValueOf(d.Directive)
		if !inner.IsValid() {
			return V("nil-directive", "directive %d has no payload", i)
		}
		ir := inner.FieldByName("Range").Interface().(directives.Range)
		// the payload lies within the wrapper (the wrapper may additionally cover annotation lines in front of it)
		if ir.Start < d.Start || ir.End > d.End {
			return V("wrapper-range", "directive %d: payload [%d,%d) outside its wrapper [%d,%d)", i, ir.Start, ir.End, d.Start, d.End)
		}
		if wv := walk(text, inner, d.Range, fmt.Sprintf("directive[%d].%s", i, inner.Type().Name()), false); wv != nil {
			return wv
		}
		if sv := shape(d); sv != nil {
			return sv.With("directive", fmt.Sprint(i))
		}
	}
	if gv := checkGap(text[pos:], pos == 0, true); gv != nil {
		return gv.With("gap_before_directive", "EOF")
	}
	rebuilt.WriteString(text[pos:])
	if rebuilt.String() != text {
		return V("cover", "gaps and directives do not concatenate to the input")
	}
	return nil
}

// checkGap: text outside directives consists of whitespace and comment lines.
// The first segment (up to the first newline) is the rest of the previous
// directive's last line unless the gap starts the file.
func checkGap(gap string, atFileStart, atEOF bool) *Violation {
	lines := strings.Split(gap, "\n")
	for i, l := range lines {
		restOfLine := i == 0 && !atFileStart
		ws := strings.Trim(l, " \t\r") == ""
		if ws {
			continue
		}
		if restOfLine {
			return V("gap-content", "text %q follows a directive on the same line", clip(l, 40))
		}
		if strings.HasPrefix(l, "#") || strings.HasPrefix(l, "*") || strings.HasPrefix(l, "//") {
			continue
		}
		return V("gap-content", "gap line %q is neither whitespace nor a comment", clip(l, 40))
	}
	return nil
}

// walk checks every Range below v: inside the parent, refers to the input.
// Optional elements (addons, performance, accrual) may be absent (zero range).
func walk(text string, v reflect.Value, parent directives.Range, path string, optional bool) *Violation {
	switch v.Kind() {
	case reflect.Struct:
		if v.Type() == rangeType {
			r := v.Interface().(directives.Range)
			if r.Text == "" && r.Start == 0 && r.End == 0 && optional {
				return nil
			}
			if r.Text != text {
				return V("range-text", "%s refers to a different text", path)
			}
			if r.Start < parent.Start || r.End > parent.End || r.Start > r.End {
				return V("child-outside-parent", "%s [%d,%d) not inside parent [%d,%d)", path, r.Start, r.End, parent.Start, parent.End)
			}
			return nil
		}
		own := parent
		opt := optional
		if f := v.FieldByName("Range"); f.IsValid() && f.Type() == rangeType {
			r := f.Interface().(directives.Range)
			tn := v.Type().Name()
			if tn == "Addons" || tn == "Performance" || tn == "Accrual" {
				if r.Start == r.End {
					opt = true
				}
			}
			if !(opt && r.Text == "" && r.Start == 0 && r.End == 0) {
				if wv := walk(text, f, parent, path, opt); wv != nil {
					return wv
				}
				own = r
			}
		}
		for i := 0; i < v.NumField(); i++ {
			ft := v.Type().Field(i)
			if ft.Name == "Range" && ft.Type == rangeType {
				continue
			}
			if !ft.IsExported() {
				continue
			}
			if wv := walk(text, v.Field(i), own, path+"."+ft.Name, opt); wv != nil {
				return wv
			}
		}
	case reflect.Slice:
		for i := 0; i < v.Len(); i++ {
			if wv := walk(text, v.Index(i), parent, fmt.Sprintf("%s[%d]", path, i), optional); wv != nil {
				return wv
			}
		}
	case reflect.Interface, reflect.Pointer:
		if !v.IsNil() {
			return walk(text, v.Elem(), parent, path, optional)
		}
	}
	return nil
}

func isAlnum(r rune) bool { return unicode.IsLetter(r) || unicode.IsDigit(r) }

func allRunes(s string, pred func(rune) bool) bool {
	if s == "" {
		return false
	}
	for _, r := range s {
		if !pred(r) {
			return false
		}
	}
	return true
}

func dateShape(s string) bool {
	rs := []rune(s)
	if len(rs) != 10 {
		return false
	}
	for i, r := range rs {
		if i == 4 || i == 7 {
			if r != '-' {
				return false
			}
		} else if !unicode.IsDigit(r) {
			return false
		}
	}
	return true
}

func decimalShape(s string) bool {
	s = strings.TrimPrefix(s, "-")
	parts := strings.Split(s, ".")
	if len(parts) > 2 {
		return false
	}
	for _, p := range parts {
		if !allRunes(p, unicode.IsDigit) {
			return false
		}
	}
	return true
}

func accountShape(s string) bool {
	if strings.HasPrefix(s, "$") {
		return allRunes(s[1:], unicode.IsLetter)
	}
	for _, seg := range strings.Split(s, ":") {
		if !allRunes(seg, isAlnum) {
			return false
		}
	}
	return true
}

func quotedShape(q directives.QuotedString) bool {
	s := q.Extract()
	return len(s) >= 2 && s[0] == '"' && s[len(s)-1] == '"' && q.Content.Start == q.Start+1 && q.Content.End == q.End-1 && !strings.Contains(q.Content.Extract(), "\"")
}

// shape: each element's text is exactly the token it stands for.
func shape(d directives.Directive) *Violation {
	bad := func(what, s string) *Violation {
		return V("element-text", "%s has text %q", what, clip(s, 60))
	}
	date := func(x directives.Date) *Violation {
		if !dateShape(x.Extract()) {
			return bad("date", x.Extract())
		}
		return nil
	}
	acc := func(x directives.Account) *Violation {
		if !accountShape(x.Extract()) {
			return bad("account", x.Extract())
		}
		return nil
	}
	com := func(x directives.Commodity) *Violation {
		if !allRunes(x.Extract(), isAlnum) {
			return bad("commodity", x.Extract())
		}
		return nil
	}
	dec := func(x directives.Decimal) *Violation {
		if !decimalShape(x.Extract()) {
			return bad("decimal", x.Extract())
		}
		return nil
	}
	first := func(vs ...*Violation) *Violation {
		for _, v := range vs {
			if v != nil {
				return v
			}
		}
		return nil
	}
	full := d.Extract()
	switch x := d.Directive.(type) {
	case directives.Open:
		if v := first(date(x.Date), acc(x.Account)); v != nil {
			return v
		}
		// annotation lines may precede any directive, so only the end of the directive text is fixed
		if !strings.HasSuffix(full, x.Account.Extract()) {
			return bad("open directive", full)
		}
	case directives.Close:
		if v := first(date(x.Date), acc(x.Account)); v != nil {
			return v
		}
		if !strings.HasSuffix(full, x.Account.Extract()) {
			return bad("close directive", full)
		}
	case directives.Price:
		if v := first(date(x.Date), com(x.Commodity), dec(x.Price), com(x.Target)); v != nil {
			return v
		}
		if !strings.HasSuffix(full, x.Target.Extract()) {
			return bad("price directive", full)
		}
	case directives.Include:
		if !quotedShape(x.IncludePath) {
			return bad("include path", x.IncludePath.Extract())
		}
		if !strings.HasPrefix(x.Extract(), "include") || !strings.HasSuffix(full, x.IncludePath.Extract()) {
			return bad("include directive", full)
		}
	case directives.Assertion:
		if v := date(x.Date); v != nil {
			return v
		}
		if len(x.Balances) == 0 {
			return V("element-text", "assertion without balances")
		}
		for _, b := range x.Balances {
			if v := first(acc(b.Account), dec(b.Quantity), com(b.Commodity)); v != nil {
				return v
			}
			if !strings.HasPrefix(b.Extract(), b.Account.Extract()) || !strings.HasSuffix(b.Extract(), b.Commodity.Extract()) {
				return bad("balance", b.Extract())
			}
		}
	case directives.Transaction:
		if v := date(x.Date); v != nil {
			return v
		}
		if !quotedShape(x.Description) {
			return bad("description", x.Description.Extract())
		}
		if len(x.Bookings) == 0 {
			return V("element-text", "transaction without bookings")
		}
		for _, b := range x.Bookings {
			if v := first(acc(b.Credit), acc(b.Debit), dec(b.Quantity), com(b.Commodity)); v != nil {
				return v
			}
			if !strings.HasPrefix(b.Extract(), b.Credit.Extract()) || !strings.HasSuffix(b.Extract(), b.Commodity.Extract()) {
				return bad("booking", b.Extract())
			}
		}
		if a := x.Addons.Accrual; !a.Empty() {
			if v := first(date(a.Start), date(a.End), acc(a.Account)); v != nil {
				return v
			}
			switch a.Interval.Extract() {
			case "daily", "weekly", "monthly", "quarterly":
			default:
				return bad("accrual interval", a.Interval.Extract())
			}
			if !strings.HasPrefix(a.Extract(), "@accrue") || !strings.HasSuffix(a.Extract(), a.Account.Extract()) {
				return bad("accrual", a.Extract())
			}
		}
		if p := x.Addons.Performance; !p.Empty() {
			for _, c := range p.Targets {
				if v := com(c); v != nil {
					return v
				}
			}
			if !strings.HasPrefix(p.Extract(), "@performance") || !strings.HasSuffix(p.Extract(), ")") {
				return bad("performance", p.Extract())
			}
		}
	default:
		return V("unknown-directive", "unknown directive type %T", d.Directive)
	}
	return nil
}

func drawC07(t *rapid.T) C07Case {
	src := rapid.SampledFrom([]string{"valid", "valid", "valid", "mutated", "mutated", "mutated", "soup", "bytes", "bom"}).Draw(t, "source")
	if gen.Rare(t, "largeFile", 10) {
		src = "large"
	}
	var text string
	switch src {
	case "large":
		// a file of realistic size: more than a thousand directives, now and then a transaction with hundreds of bookings
		text = gen.RenderNoisy(t, gen.GenSyntaxJournalN(t, 1025, 2600, true))
	case "valid":
		text = gen.RenderNoisy(t, gen.GenSyntaxJournal(t, 12, true))
	case "mutated":
		text = gen.Mutate(t, gen.RenderNoisy(t, gen.GenSyntaxJournal(t, 8, true)))
	case "bom":
		// a byte order mark (or other invisible prefix) in front of an otherwise valid journal
		prefix := rapid.SampledFrom([]string{"\xef\xbb\xbf", "\xef\xbb\xbf", "\ufeff\ufeff", "\xff\xfe", "\u200b", "\x00"}).Draw(t, "prefix")
		text = prefix + gen.RenderNoisy(t, gen.GenSyntaxJournal(t, 6, true))
	case "soup":
		text = gen.TokenSoup(t)
	default:
		text = string(rapid.SliceOfN(rapid.Byte(), 0, 200).Draw(t, "bytes"))
	}
	show := ""
	if utf8.ValidString(text) {
		show = clip(text, 400)
	}
	return C07Case{Text: []byte(text), Source: src, Show: show}
}

func TestC07(t *testing.T) {
	runProp(t, "C07", "parser", drawC07, checkC07)
}
