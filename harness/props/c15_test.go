//go:build !no_c15

package props

import (
	"fmt"
	"math"
	"math/big"
	"os"
	"path"
	"path/filepath"
	"sort"
	"strings"
	"testing"
	"unicode/utf8"

	"github.com/sboehler/knut/lib/syntax/directives"
	"github.com/sboehler/knut/lib/syntax/parser"
	"pgregory.net/rapid"

	"verifharness/gen"
	"verifharness/knutio"
	"verifharness/ref"
	"verifharness/stats"
)

// C15 — `knut infer` edits only the placeholder account.
//
// Oracle (from the statement): `knut infer -t TRAIN [-a P] TARGET` is compared
// with `knut format` of a copy of TARGET. Both are read with knut's parser
// (trusted base, guarded by C07): same inter-directive gaps, same directive
// fields, except booking accounts that were the placeholder; each of those is
// a training account different from the other account of its booking in the
// output, or — exactly when no such account exists — still the placeholder.
// The output parses, is the same on every run, equals `knut format` of the
// formatted target with the chosen names substituted (alignment), and
// --inplace leaves exactly these bytes in the file with an empty stdout.
//
// The harness's own replica of the scoring (c15Model) is NOT part of the
// oracle: it only classifies cases (labels, exclusion of known defect classes).

// Known defect classes (DESIGN §7 rows 4-6). While a flag is true the generator
// removes the class by construction (counted in evidence as excluded_known), so
// the search continues behind the defect; checkC15 itself never skips anything,
// so corpus replays of the defects still report them.
var (
	// row 4: equal-score candidates are picked in Go map iteration order (kind "nondeterministic-choice")
	c15ExcludeTie = false // fixed in /repo (fix: infer chooses between equally scored accounts deterministically)
	// row 5: no candidate ⇒ account replaced by the empty string, output unparseable (kind "empty-account")
	c15ExcludeEmpty = false // fixed in /repo (fix: infer leaves a booking unchanged when the training data offers no candidate)
	// row 6: placeholder on both sides of one booking ⇒ both replaced by the same account (kind "same-account-both-sides")
	c15ExcludeBoth = false // fixed in /repo (fix: infer with the placeholder on both sides ... two different accounts)
)

const (
	c15Target       = "target.knut"
	c15Runs         = 6
	c15NeutralAcct  = "Equity:Excluded"
	c15DefaultPlace = "Expenses:TBD"
)

type C15Case struct {
	Files       map[string]string `json:"files"`       // training files and target.knut (relative name → text)
	Root        string            `json:"root"`        // training root file; "target.knut" when the target trains itself
	Placeholder string            `json:"placeholder"` // the account to replace
	Flag        string            `json:"flag"`        // "" (default placeholder, no flag), "-a" or "--account"
	Inplace     bool              `json:"inplace"`     // additionally run with --inplace
	Classes     []string          `json:"classes,omitempty"`
}

func init() {
	Register("C15", "infer-vs-format", checkC15)
	// VERIF_C15_NOEXCLUDE=tie,empty,both (or "all") switches exclusion flags off without editing this file,
	// e.g. to confirm a repair: VERIF_C15_NOEXCLUDE=all bin/trymut C15 quick --patch corpus/C15/proposed-fix-all.diff
	for _, w := range strings.Split(os.Getenv("VERIF_C15_NOEXCLUDE"), ",") {
		switch strings.TrimSpace(w) {
		case "tie":
			c15ExcludeTie = false
		case "empty":
			c15ExcludeEmpty = false
		case "both":
			c15ExcludeBoth = false
		case "all":
			c15ExcludeTie, c15ExcludeEmpty, c15ExcludeBoth = false, false, false
		}
	}
}

// ---------------------------------------------------------------------------
// classification model (labels and exclusions only)

type c15Bk struct{ Credit, Debit, Qty, Com string }

type c15Trx struct {
	Desc string
	Bks  []c15Bk
}

type c15Model struct {
	n        int
	byAcc    map[string]int
	byTokAcc map[string]map[string]int
}

func c15Tokens(desc, com, qty, other string) []string {
	set := map[string]bool{}
	for _, f := range append(strings.Fields(desc), com, qty, other) {
		set[strings.ToLower(f)] = true
	}
	var res []string
	for k := range set {
		res = append(res, k)
	}
	sort.Strings(res)
	return res
}

func c15Train(train []c15Trx, ph string) *c15Model {
	m := &c15Model{byAcc: map[string]int{}, byTokAcc: map[string]map[string]int{}}
	upd := func(t c15Trx, b c15Bk, acc, other string) {
		m.n++
		m.byAcc[acc]++
		for _, tok := range c15Tokens(t.Desc, b.Com, b.Qty, other) {
			if m.byTokAcc[tok] == nil {
				m.byTokAcc[tok] = map[string]int{}
			}
			m.byTokAcc[tok][acc]++
		}
	}
	for _, t := range train {
		for _, b := range t.Bks {
			if b.Credit == ph || b.Debit == ph || b.Credit == "" || b.Debit == "" {
				continue // bookings involving the placeholder are not training data
			}
			upd(t, b, b.Credit, b.Debit)
			upd(t, b, b.Debit, b.Credit)
		}
	}
	return m
}

// rank returns the candidates (training accounts other than `other`) with the
// best score, whether the best score is shared (exactly, as rationals, or
// within float noise), and the number of candidates.
func (m *c15Model) rank(desc, com, qty, other string) (best []string, tie bool, n int) {
	toks := c15Tokens(desc, com, qty, other)
	type sc struct {
		acc string
		r   *big.Rat
		f   float64
	}
	var all []sc
	for _, acc := range sortedKeys(m.byAcc) {
		if acc == other {
			continue
		}
		cnt := int64(m.byAcc[acc])
		r := big.NewRat(cnt, int64(m.n))
		f := math.Log(float64(cnt) / float64(m.n))
		for _, tok := range toks {
			if ct, ok := m.byTokAcc[tok][acc]; ok {
				r.Mul(r, big.NewRat(int64(ct), cnt))
				f += math.Log(float64(ct) / float64(cnt))
			} else {
				r.Mul(r, big.NewRat(1, int64(m.n)))
				f += math.Log(1 / float64(m.n))
			}
		}
		all = append(all, sc{acc, r, f})
	}
	if len(all) == 0 {
		return nil, false, 0
	}
	sort.SliceStable(all, func(i, j int) bool { return all[i].r.Cmp(all[j].r) > 0 })
	for _, s := range all {
		if s.r.Cmp(all[0].r) == 0 || math.Abs(s.f-all[0].f) < 1e-9 {
			best = append(best, s.acc)
		}
	}
	return best, len(best) > 1, len(all)
}

type c15Occ struct {
	Trx, Bk int
	Side    string // credit | debit
	Both    bool   // the other side of the booking is the placeholder too
	NoCand  bool   // training accounts minus the other account is empty
	Tie     bool   // the best score is shared by several candidates
	Best    string // first of the best candidates ("" without candidates)
}

type c15Analysis struct {
	Accounts map[string]bool // accounts occurring in training bookings without the placeholder
	Occs     []c15Occ
}

// c15Analyse classifies every placeholder occurrence in the target's bookings.
// For a booking with the placeholder on both sides the debit side is judged
// against the credit side's choice (the repaired behaviour).
func c15Analyse(train, target []c15Trx, ph string) c15Analysis {
	m := c15Train(train, ph)
	an := c15Analysis{Accounts: map[string]bool{}}
	for a := range m.byAcc {
		an.Accounts[a] = true
	}
	for ti, t := range target {
		for bi, b := range t.Bks {
			both := b.Credit == ph && b.Debit == ph
			credit := b.Credit
			if b.Credit == ph {
				best, tie, n := m.rank(t.Desc, b.Com, b.Qty, b.Debit)
				oc := c15Occ{Trx: ti, Bk: bi, Side: "credit", Both: both, NoCand: n == 0, Tie: tie}
				if n > 0 {
					credit = best[0]
					oc.Best = best[0]
				}
				an.Occs = append(an.Occs, oc)
			}
			if b.Debit == ph {
				best, tie, n := m.rank(t.Desc, b.Com, b.Qty, credit)
				oc := c15Occ{Trx: ti, Bk: bi, Side: "debit", Both: both, NoCand: n == 0, Tie: tie}
				if n > 0 {
					oc.Best = best[0]
				}
				an.Occs = append(an.Occs, oc)
			}
		}
	}
	return an
}

func c15FromModel(ds []ref.Directive) []c15Trx {
	var res []c15Trx
	for _, d := range ds {
		if d.Kind != ref.KTrx {
			continue
		}
		t := c15Trx{Desc: d.Desc}
		for _, b := range d.Bookings {
			t.Bks = append(t.Bks, c15Bk{b.Credit, b.Debit, b.Qty, b.Com})
		}
		res = append(res, t)
	}
	return res
}

func c15FromFile(f directives.File) []c15Trx {
	var res []c15Trx
	for _, d := range f.Directives {
		t, ok := d.Directive.(directives.Transaction)
		if !ok {
			continue
		}
		x := c15Trx{Desc: t.Description.Content.Extract()}
		for _, b := range t.Bookings {
			x.Bks = append(x.Bks, c15Bk{b.Credit.Extract(), b.Debit.Extract(), b.Quantity.Extract(), b.Commodity.Extract()})
		}
		res = append(res, x)
	}
	return res
}

// ---------------------------------------------------------------------------
// reading journals with knut's parser (trusted base)

func c15Parse(text, name string) (f directives.File, err error) {
	defer func() {
		if p := recover(); p != nil {
			err = fmt.Errorf("parser panicked: %v", p)
		}
	}()
	p := parser.New(text, name)
	if err := p.Advance(); err != nil {
		return f, err
	}
	return p.ParseFile()
}

// c15LoadTraining reads the training transactions the way the statement
// describes the training journal: the root file and everything it includes.
func c15LoadTraining(files map[string]string, root string) ([]c15Trx, error) {
	var res []c15Trx
	seen := map[string]int{}
	var rec func(name string) error
	rec = func(name string) error {
		if seen[name]++; seen[name] > 8 {
			return fmt.Errorf("include cycle at %s", name)
		}
		text, ok := files[name]
		if !ok {
			return fmt.Errorf("training file %s does not exist", name)
		}
		f, err := c15Parse(text, name)
		if err != nil {
			return err
		}
		res = append(res, c15FromFile(f)...)
		for _, d := range f.Directives {
			if inc, ok := d.Directive.(directives.Include); ok {
				if err := rec(path.Join(filepath.Dir(name), inc.IncludePath.Content.Extract())); err != nil {
					return err
				}
			}
		}
		return nil
	}
	return res, rec(root)
}

type c15Field struct {
	Name, Val string
	Dir, Bk   int
	Side      string // "credit"/"debit" for booking accounts, else ""
}

func c15Flatten(f directives.File) (kinds []string, fields [][]c15Field) {
	for di, d := range f.Directives {
		var fs []c15Field
		add := func(name, val string) { fs = append(fs, c15Field{Name: name, Val: val, Dir: di, Bk: -1}) }
		kind := fmt.Sprintf("%T", d.Directive)
		switch x := d.Directive.(type) {
		case directives.Transaction:
			if !x.Addons.Accrual.Empty() {
				a := x.Addons.Accrual
				add("accrual.interval", a.Interval.Extract())
				add("accrual.start", a.Start.Extract())
				add("accrual.end", a.End.Extract())
				add("accrual.account", a.Account.Extract())
			}
			if !x.Addons.Performance.Empty() {
				add("performance.n", fmt.Sprint(len(x.Addons.Performance.Targets)))
				for i, c := range x.Addons.Performance.Targets {
					add(fmt.Sprintf("performance.%d", i), c.Extract())
				}
			}
			add("date", x.Date.Extract())
			add("description", x.Description.Content.Extract())
			add("bookings.n", fmt.Sprint(len(x.Bookings)))
			for bi, b := range x.Bookings {
				fs = append(fs, c15Field{Name: fmt.Sprintf("booking.%d.credit", bi), Val: b.Credit.Extract(), Dir: di, Bk: bi, Side: "credit"})
				fs = append(fs, c15Field{Name: fmt.Sprintf("booking.%d.debit", bi), Val: b.Debit.Extract(), Dir: di, Bk: bi, Side: "debit"})
				add(fmt.Sprintf("booking.%d.quantity", bi), b.Quantity.Extract())
				add(fmt.Sprintf("booking.%d.commodity", bi), b.Commodity.Extract())
			}
		case directives.Open:
			add("date", x.Date.Extract())
			add("account", x.Account.Extract())
		case directives.Close:
			add("date", x.Date.Extract())
			add("account", x.Account.Extract())
		case directives.Price:
			add("date", x.Date.Extract())
			add("commodity", x.Commodity.Extract())
			add("price", x.Price.Extract())
			add("target", x.Target.Extract())
		case directives.Assertion:
			add("date", x.Date.Extract())
			add("balances.n", fmt.Sprint(len(x.Balances)))
			for i, b := range x.Balances {
				add(fmt.Sprintf("balance.%d.account", i), b.Account.Extract())
				add(fmt.Sprintf("balance.%d.quantity", i), b.Quantity.Extract())
				add(fmt.Sprintf("balance.%d.commodity", i), b.Commodity.Extract())
			}
		case directives.Include:
			add("path", x.IncludePath.Content.Extract())
		}
		kinds = append(kinds, kind)
		fields = append(fields, fs)
	}
	return kinds, fields
}

func c15Gaps(f directives.File, text string) []string {
	var gaps []string
	pos := 0
	for _, d := range f.Directives {
		if d.Start < pos || d.End > len(text) || d.Start > d.End {
			return append(gaps, "<bad ranges>")
		}
		gaps = append(gaps, text[pos:d.Start])
		pos = d.End
	}
	return append(gaps, text[pos:])
}

// ---------------------------------------------------------------------------
// the check

func c15Args(c C15Case, inplace bool) []string {
	args := []string{"infer"}
	if c.Flag != "" {
		args = append(args, c.Flag, c.Placeholder)
	}
	args = append(args, "-t", c.Root)
	if inplace {
		args = append(args, "--inplace")
	}
	return append(args, c15Target)
}

func c15Journal(c C15Case) string {
	var b strings.Builder
	for _, n := range sortedKeys(c.Files) {
		fmt.Fprintf(&b, "--- %s ---\n%s\n", n, c.Files[n])
	}
	return clip(b.String(), 4000)
}

func checkC15(c C15Case) (o Outcome) {
	o.Labels = append(o.Labels, c.Classes...)
	targetText, ok := c.Files[c15Target]
	if !ok {
		o.Labels = append(o.Labels, "generator-bug:no-target")
		return o
	}
	ph := c.Placeholder
	if c.Flag == "" {
		ph = c15DefaultPlace
		o.Labels = append(o.Labels, "placeholder:default")
	} else {
		o.Labels = append(o.Labels, "placeholder:custom")
	}
	if c.Root == c15Target {
		o.Labels = append(o.Labels, "self-train")
	}

	// classification (labels, non-triviality): harness-side reading of both journals
	train, err := c15LoadTraining(c.Files, c.Root)
	if err != nil {
		o.Labels = append(o.Labels, "generator-bug:training-unreadable")
		return o
	}
	tgtFile, err := c15Parse(targetText, c15Target)
	if err != nil {
		o.Labels = append(o.Labels, "generator-bug:target-unreadable")
		return o
	}
	an := c15Analyse(train, c15FromFile(tgtFile), ph)
	T := an.Accounts
	nTie, nNo, nBoth := 0, 0, 0
	perTrx := map[int]int{}
	for _, oc := range an.Occs {
		perTrx[oc.Trx]++
		o.Labels = append(o.Labels, "occurrence:"+oc.Side)
		if oc.Tie {
			nTie++
		}
		if oc.NoCand {
			nNo++
		}
		if oc.Both && oc.Side == "credit" {
			nBoth++
		}
	}
	lab := func(cond bool, l string) {
		if cond {
			o.Labels = append(o.Labels, l)
		}
	}
	lab(nTie > 0, "tie")
	lab(nNo > 0, "no-candidate")
	lab(nBoth > 0, "both-sides")
	lab(len(an.Occs) == 0, "no-placeholder-in-target")
	for _, n := range perTrx {
		if n > 1 {
			o.Labels = append(o.Labels, "several-per-transaction")
			break
		}
	}
	lab(len(c.Files) > 2, "include-tree")
	lab(c.Inplace, "inplace")
	switch {
	case len(T) == 0:
		o.Labels = append(o.Labels, "candidates:0")
	case len(T) == 1:
		o.Labels = append(o.Labels, "candidates:1")
	default:
		o.Labels = append(o.Labels, "candidates:2+")
	}
	o.NonTrivial = len(an.Occs) >= 1 && len(T) >= 2

	files := map[string]string{}
	for n, t := range c.Files {
		files[n] = t
	}
	files["formatted.knut"] = targetText
	dir, cleanup := knutio.Materialise(files)
	defer cleanup()
	readFile := func(name string) string {
		b, err := os.ReadFile(filepath.Join(dir, name))
		if err != nil {
			return "<unreadable: " + err.Error() + ">"
		}
		return string(b)
	}

	// 1. the reference: `knut format` of a copy of the target
	r := knutio.Run(knutio.Opts{Dir: dir}, "format", "formatted.knut")
	o.Evals++
	if !r.OK() {
		o.Labels = append(o.Labels, "generator-bug:format-rejects-target")
		o.NonTrivial = false
		return o
	}
	F := readFile("formatted.knut")
	fmtFile, err := c15Parse(F, "formatted.knut")
	if err != nil {
		// a defect of `format` (C08/C09), not of infer: nothing to compare against
		o.Labels = append(o.Labels, "formatted-target-unparseable")
		o.NonTrivial = false
		return o
	}

	// 2. infer, repeated
	args := c15Args(c, false)
	var outs []string
	runs := c15Runs
	if len(an.Occs) == 0 {
		runs = 2 // nothing to choose: two runs suffice
	}
	if nTie > 0 {
		// a tie between two candidates in a small Go map resolves 7:1, so six runs agree by chance in 45% of
		// the cases; where the classification model sees a tie, spend more runs (miss rate < 2%)
		runs = 5 * c15Runs
	}
	for i := 0; i < runs; i++ {
		r := knutio.Run(knutio.Opts{Dir: dir}, args...)
		o.Evals++
		if r.TimedOut || r.Signaled || r.Panicked() {
			o.Violation = V("crash", "knut %v: %s\n%s", args, r.Brief(), c15Journal(c))
			return o
		}
		if r.Exit != 0 {
			o.Violation = V("infer-fails", "knut %v exits %d on a parseable training journal and target:\n%s\n%s", args, r.Exit, clip(r.Stderr, 800), c15Journal(c))
			return o
		}
		if got := readFile(c15Target); got != targetText {
			o.Violation = V("target-modified", "knut %v (without --inplace) changed the target file:\n%q\nwas\n%q", args, clip(got, 800), clip(targetText, 800))
			return o
		}
		outs = append(outs, r.Stdout)
	}
	O := outs[0]
	for i, s := range outs {
		if s != O {
			o.Violation = c15Nondet(c, args, O, s, 0, i, nTie)
			return o
		}
	}

	// 3. the output parses
	outFile, err := c15Parse(O, "stdout")
	if err != nil {
		kind := "output-unparseable"
		if nNo > 0 {
			kind = "empty-account" // DESIGN §7 row 5: no candidate ⇒ the account is replaced by the empty string
		}
		o.Violation = V(kind, "the output of knut %v does not parse: %v\n--output--\n%s\n--formatted target--\n%s\n%s", args, err, clip(O, 1500), clip(F, 1500), c15Journal(c)).
			With("no_candidate_occurrences", fmt.Sprint(nNo)).With("training_accounts", fmt.Sprint(len(T)))
		return o
	}

	// 4. same gaps, same fields except the placeholder occurrences
	if v := c15Compare(c, args, ph, T, F, O, fmtFile, outFile); v != nil {
		o.Violation = v
		return o
	}

	// 5. alignment: the output is the formatter's rendering of the formatted target with the chosen names substituted
	S := c15Substitute(F, fmtFile, outFile, ph)
	os.WriteFile(filepath.Join(dir, "substituted.knut"), []byte(S), 0o644)
	r = knutio.Run(knutio.Opts{Dir: dir}, "format", "substituted.knut")
	o.Evals++
	if !r.OK() {
		o.Violation = V("alignment", "knut format rejects the formatted target with the chosen accounts substituted: %s", r.Brief())
		return o
	}
	if got := readFile("substituted.knut"); got != O {
		o.Violation = V("alignment", "output differs from `knut format` of the target with the chosen accounts substituted\n--output--\n%q\n--format(substituted)--\n%q\n%s", clip(O, 1500), clip(got, 1500), c15Journal(c))
		return o
	}

	// 6. --inplace leaves the same bytes in the file, stdout stays empty
	if c.Inplace {
		iargs := c15Args(c, true)
		r := knutio.Run(knutio.Opts{Dir: dir}, iargs...)
		o.Evals++
		if r.TimedOut || r.Signaled || r.Panicked() {
			o.Violation = V("crash", "knut %v: %s\n%s", iargs, r.Brief(), c15Journal(c))
			return o
		}
		if r.Exit != 0 {
			o.Violation = V("infer-fails", "knut %v exits %d:\n%s\n%s", iargs, r.Exit, clip(r.Stderr, 800), c15Journal(c))
			return o
		}
		if r.Stdout != "" {
			o.Violation = V("inplace-stdout", "knut %v prints to stdout: %q", iargs, clip(r.Stdout, 400))
			return o
		}
		if got := readFile(c15Target); got != O {
			// a tie resolved differently shows up here as well: separate it from a genuine difference of the two modes
			os.WriteFile(filepath.Join(dir, c15Target), []byte(targetText), 0o644)
			for i := 0; i < 5*c15Runs; i++ {
				r := knutio.Run(knutio.Opts{Dir: dir}, args...)
				o.Evals++
				if r.Stdout != O {
					o.Violation = c15Nondet(c, args, O, r.Stdout, 0, runs+i, nTie)
					return o
				}
			}
			o.Violation = V("inplace-differs", "knut %v leaves other bytes in the file than stdout mode prints\n--file--\n%q\n--stdout mode--\n%q\n%s", iargs, clip(got, 1500), clip(O, 1500), c15Journal(c))
			return o
		}
	}
	return o
}

func c15Nondet(c C15Case, args []string, a, b string, i, j, nTie int) *Violation {
	la, lb := strings.Split(a, "\n"), strings.Split(b, "\n")
	diff := ""
	for k := 0; k < len(la) && k < len(lb); k++ {
		if la[k] != lb[k] {
			diff = fmt.Sprintf("line %d: %q vs %q", k+1, la[k], lb[k])
			break
		}
	}
	return V("nondeterministic-choice", "knut %v prints different bytes on run %d and run %d (%s)\n--run %d--\n%s\n--run %d--\n%s\n%s",
		args, i+1, j+1, diff, i+1, clip(a, 1200), j+1, clip(b, 1200), c15Journal(c)).
		With("tie_occurrences", fmt.Sprint(nTie)).With("first_difference", diff)
}

func c15Compare(c C15Case, args []string, ph string, T map[string]bool, F, O string, fmtFile, outFile directives.File) *Violation {
	ctx := func() string {
		return fmt.Sprintf("knut %v\n--output--\n%s\n--formatted target--\n%s\n%s", args, clip(O, 1500), clip(F, 1500), c15Journal(c))
	}
	fk, ff := c15Flatten(fmtFile)
	ok, of := c15Flatten(outFile)
	if len(fk) != len(ok) {
		return V("directive-count", "formatted target has %d directives, the output %d\n%s", len(fk), len(ok), ctx())
	}
	fg, og := c15Gaps(fmtFile, F), c15Gaps(outFile, O)
	for i := range fg {
		if fg[i] != og[i] {
			return V("gap-changed", "text before directive %d (or the tail) differs: %q in the formatted target, %q in the output\n%s", i, fg[i], og[i], ctx()).With("gap", fmt.Sprint(i))
		}
	}
	type side struct{ was, now string }
	type bkKey struct{ dir, bk int }
	bookings := map[bkKey]map[string]side{}
	var order []bkKey
	for i := range fk {
		if fk[i] != ok[i] {
			return V("field-changed", "directive %d is a %s in the formatted target and a %s in the output\n%s", i, fk[i], ok[i], ctx()).With("field", "kind")
		}
		if len(ff[i]) != len(of[i]) {
			return V("field-changed", "directive %d has %d fields in the formatted target and %d in the output\n%s", i, len(ff[i]), len(of[i]), ctx()).With("field", "count")
		}
		for k, f := range ff[i] {
			g := of[i][k]
			if f.Name != g.Name {
				return V("field-changed", "directive %d: field %s became %s\n%s", i, f.Name, g.Name, ctx()).With("field", f.Name)
			}
			if f.Side != "" {
				key := bkKey{f.Dir, f.Bk}
				if bookings[key] == nil {
					bookings[key] = map[string]side{}
					order = append(order, key)
				}
				bookings[key][f.Side] = side{f.Val, g.Val}
				if f.Val == ph {
					continue // judged below
				}
			}
			if f.Val != g.Val {
				kind := "field-changed"
				if f.Name == "accrual.account" || f.Name == "account" || strings.HasSuffix(f.Name, ".account") {
					if f.Val == ph && T[g.Val] {
						// the statement speaks of "occurrences of the placeholder"; a reading that also replaces
						// occurrences outside bookings by a training account is not contradicted by it
						continue
					}
				}
				return V(kind, "directive %d (%s): %s is %q in the formatted target and %q in the output (placeholder %q)\n%s", i, fk[i], f.Name, f.Val, g.Val, ph, ctx()).
					With("field", strings.TrimLeft(f.Name[strings.LastIndexByte(f.Name, '.')+1:], "0123456789"))
			}
		}
	}
	for _, key := range order {
		b := bookings[key]
		cr, dr := b["credit"], b["debit"]
		if cr.was == ph && dr.was == ph && cr.now == dr.now && cr.now != ph {
			return V("same-account-both-sides", "directive %d booking %d had the placeholder on both sides; both became %q\n%s", key.dir, key.bk, cr.now, ctx()).
				With("account", cr.now)
		}
		for _, s := range []struct {
			name      string
			me, other side
		}{{"credit", cr, dr}, {"debit", dr, cr}} {
			if s.me.was != ph {
				continue
			}
			allowed := 0
			for a := range T {
				if a != s.other.now {
					allowed++
				}
			}
			where := fmt.Sprintf("directive %d booking %d %s", key.dir, key.bk, s.name)
			switch {
			case s.me.now == ph:
				if allowed > 0 {
					return V("not-replaced", "%s: the placeholder %q was kept although the training journal offers %d account(s) other than %q\n%s", where, ph, allowed, s.other.now, ctx())
				}
			case !T[s.me.now]:
				return V("not-a-training-account", "%s: the placeholder became %q, which occurs in no training booking (training accounts: %v)\n%s", where, s.me.now, sortedKeys(T), ctx()).
					With("account", s.me.now)
			case s.me.now == s.other.now:
				return V("equals-other-account", "%s: the placeholder became %q, the other account of the same booking\n%s", where, s.me.now, ctx()).
					With("account", s.me.now)
			}
		}
	}
	return nil
}

// c15Substitute rewrites the formatted target F, replacing each booking
// account that was the placeholder by the account found at the same position
// of the output.
func c15Substitute(F string, fmtFile, outFile directives.File, ph string) string {
	type edit struct {
		start, end int
		text       string
	}
	var edits []edit
	for i, d := range fmtFile.Directives {
		t, ok := d.Directive.(directives.Transaction)
		if !ok {
			continue
		}
		u, ok := outFile.Directives[i].Directive.(directives.Transaction)
		if !ok || len(u.Bookings) != len(t.Bookings) {
			continue
		}
		for bi, b := range t.Bookings {
			if b.Credit.Extract() == ph {
				edits = append(edits, edit{b.Credit.Start, b.Credit.End, u.Bookings[bi].Credit.Extract()})
			}
			if b.Debit.Extract() == ph {
				edits = append(edits, edit{b.Debit.Start, b.Debit.End, u.Bookings[bi].Debit.Extract()})
			}
		}
	}
	sort.Slice(edits, func(i, j int) bool { return edits[i].start < edits[j].start })
	var b strings.Builder
	pos := 0
	for _, e := range edits {
		b.WriteString(F[pos:e.start])
		b.WriteString(e.text)
		pos = e.end
	}
	b.WriteString(F[pos:])
	return b.String()
}

// ---------------------------------------------------------------------------
// generator

var c15AccountPool = []string{"Assets:Bank", "Assets:Cash", "Expenses:Food", "Expenses:Rent", "Income:Lohn", "Liabilities:Card", "Equity:Opening", "Ausgaben:Börse", "Assets:口座:Sub", "A1"}
var c15Words = []string{"Migros", "migros", "Rent", "Lohn", "Café", "10", "CHF", "Assets:Bank", "x", "ÜBER"}
var c15Coms = []string{"CHF", "USD", "口"}
var c15Qtys = []string{"1", "10", "10.0", "-5", "0", "12.50"}
var c15CustomPlaceholders = []string{"Expenses:TBD", "Assets:Unknown", "Expenses:TBD:Sub", "Unklar", "Ausgaben:Ünklar", "Expenses:Food", "expenses:tbd", "Assets:Bank"}

// c15Lookalikes are accounts that are NOT the placeholder but close to it.
func c15Lookalikes(ph string) []string {
	var res []string
	add := func(s string) {
		if s != "" && s != ph && !strings.HasSuffix(s, ":") && !strings.HasPrefix(s, ":") {
			res = append(res, s)
		}
	}
	add(ph + ":Sub")
	add(ph + "X")
	_, size := utf8.DecodeLastRuneInString(ph)
	add(ph[:len(ph)-size])
	if i := strings.LastIndexByte(ph, ':'); i > 0 {
		add(ph[:i])
	}
	add(strings.ToLower(ph))
	add(strings.ToUpper(ph))
	add("X:" + ph)
	add(c15DefaultPlace)
	return res
}

func drawC15(t *rapid.T) C15Case {
	c := C15Case{Files: map[string]string{}, Root: "train.knut"}
	// placeholder
	c.Flag = rapid.SampledFrom([]string{"", "", "", "-a", "--account"}).Draw(t, "flag")
	c.Placeholder = c15DefaultPlace
	if c.Flag != "" {
		c.Placeholder = rapid.SampledFrom(c15CustomPlaceholders).Draw(t, "placeholder")
	}
	ph := c.Placeholder
	c.Inplace = rapid.Bool().Draw(t, "inplace")
	selfTrain := rapid.IntRange(0, 7).Draw(t, "selfTrain") == 7

	// universe
	accs := rapid.SliceOfNDistinct(rapid.SampledFrom(c15AccountPool), 2, 4, rapid.ID[string]).Draw(t, "accounts")
	var pool []string
	for _, a := range accs {
		if a != ph {
			pool = append(pool, a)
		}
	}
	if len(pool) == 0 {
		pool = []string{"Assets:Other"}
	}
	look := c15Lookalikes(ph)
	withLook := rapid.IntRange(0, 2).Draw(t, "lookalikes") != 0
	tgtPool := append([]string{}, pool...)
	trainPool := append([]string{}, pool...)
	if withLook {
		tgtPool = append(tgtPool, look...)
		if rapid.Bool().Draw(t, "lookalikesInTraining") {
			trainPool = append(trainPool, rapid.SampledFrom(look).Draw(t, "trainLookalike"))
		}
	}
	// a training journal of realistic size: a hundred or more accounts, many of them used equally often
	largeTraining := gen.Rare(t, "largeTraining", 5)
	if largeTraining {
		n := rapid.IntRange(66, 160).Draw(t, "nTrainAccounts")
		for i := 0; i < n; i++ {
			trainPool = append(trainPool, fmt.Sprintf("Expenses:Kat%03d", i))
		}
	}
	nWords := rapid.IntRange(1, len(c15Words)).Draw(t, "nWords")
	words := c15Words[:nWords]
	nQ := rapid.IntRange(1, len(c15Qtys)).Draw(t, "nQtys")
	nC := rapid.IntRange(1, len(c15Coms)).Draw(t, "nComs")
	date := func(t *rapid.T) ref.Day {
		m := rapid.IntRange(1, 12).Draw(t, "m")
		return ref.FromCivil(2020, m, rapid.IntRange(1, 28).Draw(t, "d"))
	}
	desc := func(t *rapid.T) string {
		ws := rapid.SliceOfN(rapid.SampledFrom(words), 0, 3).Draw(t, "words")
		return strings.Join(ws, rapid.SampledFrom([]string{" ", " ", " ", "  ", "\t", "\n"}).Draw(t, "wordSep"))
	}
	qty := func(t *rapid.T) string { return rapid.SampledFrom(c15Qtys[:nQ]).Draw(t, "qty") }
	com := func(t *rapid.T) string { return rapid.SampledFrom(c15Coms[:nC]).Draw(t, "com") }
	other := func(t *rapid.T, kinds []string, accounts []string, phRate int) ref.Directive {
		acct := func() string {
			if phRate > 0 && rapid.IntRange(0, phRate).Draw(t, "phElsewhere") == 0 {
				return ph
			}
			return rapid.SampledFrom(accounts).Draw(t, "acct")
		}
		d := ref.Directive{Kind: rapid.SampledFrom(kinds).Draw(t, "kind"), Date: date(t)}
		switch d.Kind {
		case ref.KOpen, ref.KClose:
			d.Account = acct()
		case ref.KPrice:
			d.Com, d.Target, d.Price = com(t), com(t), qty(t)
		case ref.KAssert:
			nb := rapid.SampledFrom([]int{1, 1, 2}).Draw(t, "nBalances")
			for i := 0; i < nb; i++ {
				d.Balances = append(d.Balances, ref.Balance{Account: acct(), Qty: qty(t), Com: com(t)})
			}
		case ref.KInclude:
			d.Path = rapid.SampledFrom([]string{"missing.knut", "train.knut", "sub/x.knut"}).Draw(t, "includePath")
		}
		return d
	}

	// training journal
	trainClass := rapid.SampledFrom([]string{"empty", "no-transactions", "transactions-only", "transactions-only", "transactions-only", "transactions-only", "transactions-only", "transactions-only", "mixed", "mixed", "mixed", "mixed", "mixed", "mixed"}).Draw(t, "trainClass")
	trainTrx := func(t *rapid.T) ref.Directive {
		d := ref.Directive{Kind: ref.KTrx, Date: date(t), Desc: desc(t)}
		nb := rapid.SampledFrom([]int{1, 1, 1, 2}).Draw(t, "nBookings")
		for i := 0; i < nb; i++ {
			b := ref.Booking{Credit: rapid.SampledFrom(trainPool).Draw(t, "credit"), Debit: rapid.SampledFrom(trainPool).Draw(t, "debit"), Qty: qty(t), Com: com(t)}
			switch rapid.IntRange(0, 11).Draw(t, "trainSpecial") {
			case 0:
				b.Credit = ph // bookings that themselves contain the placeholder
			case 1:
				b.Debit = ph
			case 2, 3:
				b.Debit = b.Credit // an account booked against itself
			}
			d.Bookings = append(d.Bookings, b)
		}
		return d
	}
	trainDir := rapid.Custom(func(t *rapid.T) ref.Directive {
		switch trainClass {
		case "no-transactions":
			return other(t, []string{ref.KOpen, ref.KClose, ref.KPrice, ref.KAssert}, trainPool, 6)
		case "transactions-only":
			return trainTrx(t)
		}
		if rapid.IntRange(0, 3).Draw(t, "nonTrx") == 0 {
			return other(t, []string{ref.KOpen, ref.KClose, ref.KPrice, ref.KAssert}, trainPool, 6)
		}
		return trainTrx(t)
	})
	var train []ref.Directive
	if trainClass != "empty" {
		minTrain := 1
		if trainClass == "no-transactions" {
			minTrain = 0
		}
		if largeTraining {
			nt := rapid.IntRange(150, 400).Draw(t, "nTrainLarge")
			train = rapid.SliceOfN(trainDir, nt, nt).Draw(t, "train")
			// every account of the pool is used at least once (equal counts around any cut-off)
			for i, a := range trainPool {
				train = append(train, ref.Directive{Kind: ref.KTrx, Date: date(t), Desc: words[i%len(words)],
					Bookings: []ref.Booking{{Credit: trainPool[0], Debit: a, Qty: qty(t), Com: com(t)}}})
			}
		} else {
			train = rapid.SliceOfN(trainDir, minTrain, 8).Draw(t, "train")
		}
		// tie booster: a copy of one transaction with one account exchanged for another
		if len(train) > 0 && rapid.IntRange(0, 2).Draw(t, "mirror") == 0 {
			src := train[rapid.IntRange(0, len(train)-1).Draw(t, "mirrorOf")]
			if src.Kind == ref.KTrx {
				from := rapid.SampledFrom(trainPool).Draw(t, "mirrorFrom")
				to := rapid.SampledFrom(c15AccountPool).Draw(t, "mirrorTo")
				cp := src
				cp.Bookings = nil
				for _, b := range src.Bookings {
					if b.Credit == from {
						b.Credit = to
					}
					if b.Debit == from {
						b.Debit = to
					}
					cp.Bookings = append(cp.Bookings, b)
				}
				train = append(train, cp)
			}
		}
	}

	// target journal
	tgtMode := rapid.SampledFrom([]string{"mix", "mix", "mix", "credit", "debit", "both", "none"}).Draw(t, "targetMode")
	tgtKinds := []string{ref.KOpen, ref.KClose, ref.KPrice, ref.KAssert, ref.KInclude}
	if selfTrain {
		tgtKinds = tgtKinds[:4] // the target is read recursively as training journal: no dangling includes
	}
	tgtDir := rapid.Custom(func(t *rapid.T) ref.Directive {
		if rapid.IntRange(0, 4).Draw(t, "nonTrx") == 0 {
			return other(t, tgtKinds, tgtPool, 4)
		}
		d := ref.Directive{Kind: ref.KTrx, Date: date(t), Desc: desc(t)}
		if rapid.IntRange(0, 5).Draw(t, "unseenWords") == 0 {
			d.Desc = rapid.SampledFrom([]string{"Neukunde", "Unbekannt 4711", "zzz"}).Draw(t, "unseen") // a payee the training data has never seen
		}
		nb := rapid.SampledFrom([]int{1, 1, 2, 3}).Draw(t, "nBookings")
		for i := 0; i < nb; i++ {
			b := ref.Booking{Credit: rapid.SampledFrom(tgtPool).Draw(t, "credit"), Debit: rapid.SampledFrom(tgtPool).Draw(t, "debit"), Qty: qty(t), Com: com(t)}
			mode := tgtMode
			if mode == "mix" {
				mode = rapid.SampledFrom([]string{"credit", "debit", "debit", "both", "none"}).Draw(t, "side")
			} else if rapid.IntRange(0, 3).Draw(t, "plain") == 0 {
				mode = "none"
			}
			switch mode {
			case "credit":
				b.Credit = ph
			case "debit":
				b.Debit = ph
			case "both":
				b.Credit, b.Debit = ph, ph
			}
			d.Bookings = append(d.Bookings, b)
		}
		if rapid.IntRange(0, 7).Draw(t, "accrual") == 0 {
			s := date(t)
			acc := rapid.SampledFrom(tgtPool).Draw(t, "accrualAccount")
			if rapid.IntRange(0, 2).Draw(t, "accrualPlaceholder") == 0 {
				acc = ph
			}
			d.Accrual = &ref.Accrual{Interval: rapid.SampledFrom([]string{"daily", "weekly", "monthly", "quarterly"}).Draw(t, "interval"), Start: s, End: s + ref.Day(rapid.IntRange(0, 90).Draw(t, "len")), Account: acc}
		}
		if rapid.IntRange(0, 7).Draw(t, "perf") == 0 {
			d.HasPerf = true
			d.Perf = rapid.SliceOfN(rapid.SampledFrom(c15Coms), 0, 2).Draw(t, "perfTargets")
		}
		return d
	})
	target := rapid.SliceOfN(tgtDir, 0, 5).Draw(t, "target")

	// exclusion of the known defect classes, by construction (on the models, before rendering)
	if selfTrain {
		train = nil
	}
	trainingOf := func() []c15Trx {
		if selfTrain {
			return c15FromModel(target)
		}
		return c15FromModel(train)
	}
	boosts := 0
	for {
		an := c15Analyse(trainingOf(), c15FromModel(target), ph)
		changed := false
		var trxDirs []int // index of the k-th transaction in target
		for i, d := range target {
			if d.Kind == ref.KTrx {
				trxDirs = append(trxDirs, i)
			}
		}
		for _, oc := range an.Occs {
			b := &target[trxDirs[oc.Trx]].Bookings[oc.Bk]
			switch {
			case oc.Both && c15ExcludeBoth:
				if oc.Side == "debit" {
					b.Debit = pool[0]
					stats.Get("C15").Excluded("both-sides")
					changed = true
				}
			case oc.Tie && c15ExcludeTie && !selfTrain && !oc.Both && boosts < 4:
				// break the tie with one more training transaction that looks like the target booking
				boosts++
				d := target[trxDirs[oc.Trx]]
				nb := *b
				if oc.Side == "credit" {
					nb.Credit = oc.Best
				} else {
					nb.Debit = oc.Best
				}
				train = append(train, ref.Directive{Kind: ref.KTrx, Date: d.Date, Desc: d.Desc, Bookings: []ref.Booking{nb}})
				stats.Get("C15").Excluded("tie")
				changed = true
			case oc.NoCand && c15ExcludeEmpty, oc.Tie && c15ExcludeTie:
				what := "tie"
				if oc.NoCand {
					what = "no-candidate"
				}
				if oc.Side == "credit" {
					b.Credit = c15NeutralAcct
				} else {
					b.Debit = c15NeutralAcct
				}
				stats.Get("C15").Excluded(what)
				changed = true
			}
			if changed {
				break // re-analyse: the edit may change the class of the remaining occurrences
			}
		}
		if !changed {
			break
		}
	}

	// rendering
	render := func(ds []ref.Directive, noisyOdds int, label string) string {
		if rapid.IntRange(0, 3).Draw(t, label) < noisyOdds {
			return gen.RenderNoisy(t, ds)
		}
		return ref.RenderAll(ds)
	}
	c.Files[c15Target] = render(target, 3, "targetNoisy")
	c.Classes = append(c.Classes, "train:"+trainClass, "target:"+tgtMode)
	if selfTrain {
		c.Root = c15Target
		c.Classes[0] = "train:self"
		return c
	}
	if trainClass == "empty" {
		c.Files[c.Root] = rapid.SampledFrom([]string{"", "", "\n", "# nothing yet\n", "  \n\n", "// todo"}).Draw(t, "emptyTraining")
		return c
	}
	nFiles := rapid.SampledFrom([]int{1, 1, 1, 1, 2, 3, 4}).Draw(t, "trainingFiles")
	if rapid.IntRange(0, 3).Draw(t, "rootInSubdir") == 0 {
		c.Root = "tr/main.knut"
	}
	rootDir := filepath.Dir(c.Root)
	names := []string{c.Root, path.Join(rootDir, "inc/a.knut"), path.Join(rootDir, "inc/deep/b.knut"), path.Join(rootDir, "c.knut")}[:nFiles]
	parts := make([][]ref.Directive, nFiles)
	for _, d := range train {
		k := 0
		if nFiles > 1 {
			k = rapid.IntRange(0, nFiles-1).Draw(t, "file")
		}
		parts[k] = append(parts[k], d)
	}
	addInclude := func(k int, p string) {
		inc := ref.Directive{Kind: ref.KInclude, Path: p}
		if rapid.Bool().Draw(t, "includeFirst") {
			parts[k] = append([]ref.Directive{inc}, parts[k]...)
		} else {
			parts[k] = append(parts[k], inc)
		}
	}
	if nFiles >= 2 {
		addInclude(0, "inc/a.knut")
	}
	if nFiles >= 3 {
		addInclude(1, "deep/b.knut")
	}
	if nFiles >= 4 {
		if rapid.Bool().Draw(t, "cFromA") {
			addInclude(1, "../c.knut")
		} else {
			addInclude(0, "c.knut")
		}
	}
	for k, n := range names {
		c.Files[n] = render(parts[k], 1, "trainNoisy")
	}
	return c
}

func TestC15(t *testing.T) {
	runProp(t, "C15", "infer-vs-format", drawC15, checkC15)
}
