//go:build !no_c19

package props

import (
	"context"
	"encoding/json"
	"errors"
	"fmt"
	"io/fs"
	"os"
	"path/filepath"
	"regexp"
	"runtime"
	"sort"
	"strings"
	"testing"
	"time"

	"github.com/sboehler/knut/lib/amounts"
	"github.com/sboehler/knut/lib/common/date"
	"github.com/sboehler/knut/lib/common/mapper"
	"github.com/sboehler/knut/lib/common/predicate"
	"github.com/sboehler/knut/lib/common/regex"
	"github.com/sboehler/knut/lib/journal"
	"github.com/sboehler/knut/lib/journal/check"
	"github.com/sboehler/knut/lib/journal/performance"
	"github.com/sboehler/knut/lib/model"
	"github.com/sboehler/knut/lib/model/account"
	"github.com/sboehler/knut/lib/model/commodity"
	"github.com/sboehler/knut/lib/model/registry"
	"github.com/sboehler/knut/lib/reports/balance"
	"github.com/sboehler/knut/lib/reports/weights"
	"pgregory.net/rapid"

	"verifharness/gen"
	"verifharness/knutio"
	"verifharness/ref"
)

// C19 — concurrent loading and processing is race-free and terminates.

type C19Case struct {
	Files      map[string]string `json:"files"`
	Main       string            `json:"main"`
	Directives []ref.Directive   `json:"directives"` // what the generator put into the files (without includes)
	Fault      string            `json:"fault,omitempty"`
	FaultFile  string            `json:"fault_file,omitempty"`
	V          string            `json:"v,omitempty"`
	Interval   int               `json:"interval"`
	Mapping    *gen.Mapping      `json:"mapping,omitempty"`
	Remap      string            `json:"remap,omitempty"`
	Procs      int               `json:"procs"`
	Pipeline   string            `json:"pipeline"`       // balance | weights | returns | check
	Argv       []string          `json:"argv,omitempty"` // CLI variant
}

func init() {
	Register("C19", "library-census", checkC19Lib)
	Register("C19", "race-binary", checkC19CLI)
}

func c19Canon(kind string, day ref.Day, rest string) string {
	return fmt.Sprintf("%s|%s|%s", day, kind, rest)
}

// c19Expected lists the canonical form of every directive the journal must contain.
func c19Expected(ds []ref.Directive) []string {
	var out []string
	for i, d := range ds {
		switch d.Kind {
		case ref.KOpen, ref.KClose:
			out = append(out, c19Canon(d.Kind, d.Date, d.Account))
		case ref.KPrice:
			out = append(out, c19Canon(d.Kind, d.Date, fmt.Sprintf("%s %s %s", d.Com, ref.DecString(ref.R(d.Price)), d.Target)))
		case ref.KAssert:
			var bs []string
			for _, b := range d.Balances {
				bs = append(bs, fmt.Sprintf("%s %s %s", b.Account, ref.DecString(ref.R(b.Qty)), b.Com))
			}
			out = append(out, c19Canon(d.Kind, d.Date, strings.Join(bs, ";")))
		case ref.KTrx:
			ts, _ := ref.Expand(d, i)
			for _, t := range ts {
				var ps []string
				for _, h := range t.Halves() {
					ps = append(ps, fmt.Sprintf("%s %s %s", h.Account, ref.DecString(h.Qty), h.Com))
				}
				sort.Strings(ps)
				out = append(out, c19Canon(d.Kind, t.Date, t.Desc+"|"+strings.Join(ps, ";")))
			}
		}
	}
	sort.Strings(out)
	return out
}

func decStr(s fmt.Stringer) string { return ref.DecString(ref.R(s.String())) }

// c19Census lists the canonical form of every directive of a built journal.
func c19Census(j *journal.Journal) []string {
	var out []string
	for _, d := range j.Days {
		day := fromTime(d.Date)
		for _, p := range d.Prices {
			out = append(out, c19Canon(ref.KPrice, day, fmt.Sprintf("%s %s %s", p.Commodity.Name(), decStr(p.Price), p.Target.Name())))
		}
		for _, o := range d.Openings {
			out = append(out, c19Canon(ref.KOpen, day, o.Account.Name()))
		}
		for _, c := range d.Closings {
			out = append(out, c19Canon(ref.KClose, day, c.Account.Name()))
		}
		for _, a := range d.Assertions {
			var bs []string
			for _, b := range a.Balances {
				bs = append(bs, fmt.Sprintf("%s %s %s", b.Account.Name(), decStr(b.Quantity), b.Commodity.Name()))
			}
			out = append(out, c19Canon(ref.KAssert, day, strings.Join(bs, ";")))
		}
		for _, t := range d.Transactions {
			var ps []string
			for _, p := range t.Postings {
				ps = append(ps, fmt.Sprintf("%s %s %s", p.Account.Name(), decStr(p.Quantity), p.Commodity.Name()))
			}
			sort.Strings(ps)
			out = append(out, c19Canon(ref.KTrx, day, t.Description+"|"+strings.Join(ps, ";")))
		}
	}
	sort.Strings(out)
	return out
}

func multisetDiff(a, b []string) (onlyA, onlyB []string) {
	m := map[string]int{}
	for _, x := range a {
		m[x]++
	}
	for _, x := range b {
		m[x]--
	}
	for k, n := range m {
		for ; n > 0; n-- {
			onlyA = append(onlyA, k)
		}
		for ; n < 0; n++ {
			onlyB = append(onlyB, k)
		}
	}
	sort.Strings(onlyA)
	sort.Strings(onlyB)
	return
}

// faultMatches: the returned error belongs to a stage that can fail on this input.
func c19FaultMatches(fault string, err error) bool {
	msg := err.Error()
	switch fault {
	case "syntax":
		return strings.Contains(msg, "while parsing") || strings.Contains(msg, "unexpected")
	case "missing-file":
		return errors.Is(err, fs.ErrNotExist) || strings.Contains(msg, "no such file")
	case "bad-account":
		return strings.Contains(msg, "invalid account type")
	case "assertion":
		// the injected assertion is rejected by the checker: as a failed assertion, or because its account is not open on that day
		return strings.Contains(msg, "failed assertion") || strings.Contains(msg, "is not open")
	case "unopened":
		return strings.Contains(msg, "is not open")
	case "missing-price":
		return strings.Contains(msg, "no price found")
	}
	return false
}

func checkC19Lib(c C19Case) (o Outcome) {
	dir, cleanup := knutio.Materialise(c.Files)
	defer cleanup()
	o.Labels = []string{"pipeline:" + c.Pipeline, fmt.Sprintf("files:%d", min(len(c.Files), 8)), fmt.Sprintf("procs:%d", c.Procs), "fault:" + c.Fault}
	if c.Mapping != nil && c.Mapping.Suffix > 0 {
		o.Labels = append(o.Labels, "mapping-with-suffix")
	}
	old := runtime.GOMAXPROCS(c.Procs)
	defer runtime.GOMAXPROCS(old)
	var (
		b    *journal.Builder
		jn   *journal.Journal
		lerr error
		perr error
	)
	reg := registry.New()
	before := runtime.NumGoroutine()
	p := Guard("C19", "library-census", c, 90*time.Second, func() {
		b, lerr = journal.FromPath(context.Background(), reg, filepath.Join(dir, c.Main))
		if lerr != nil {
			return
		}
		var valuation *model.Commodity
		if c.V != "" {
			valuation, _ = reg.Commodities().Get(c.V)
		}
		partition := date.NewPartition(b.Period(), date.Interval(c.Interval), 0)
		var procs []*journal.Processor
		switch c.Pipeline {
		case "check":
			procs = []*journal.Processor{check.Check()}
		case "balance":
			var m account.Mapping
			if c.Mapping != nil {
				var re *regexp.Regexp
				if c.Mapping.HasRe {
					re = regexp.MustCompile(c.Mapping.Regex)
				}
				m = account.Mapping{{Level: c.Mapping.Level, Suffix: c.Mapping.Suffix, Regex: re}}
			}
			var remap regex.Regexes
			if c.Remap != "" {
				remap.Add(regexp.MustCompile(c.Remap))
			}
			report := balance.NewReport(reg, partition)
			procs = []*journal.Processor{
				check.Check(),
				journal.ComputePrices(valuation),
				journal.Valuate(reg, valuation),
				journal.Filter(partition),
				journal.CloseAccounts(b, reg, true, partition),
				journal.Query{
					Select: amounts.KeyMapper{
						Date:      partition.Align(),
						Account:   mapper.Sequence(account.Remap(reg.Accounts(), remap), account.Shorten(reg.Accounts(), m)),
						Commodity: mapper.Identity[*model.Commodity],
						Valuation: commodity.IdentityIf(valuation != nil),
					}.Build(),
					Valuation: valuation,
				}.Into(report),
			}
		case "weights", "returns":
			calc := &performance.Calculator{Context: reg, Valuation: valuation,
				AccountFilter: predicate.ByName[*model.Account](nil), CommodityFilter: predicate.ByName[*model.Commodity](nil)}
			b.Days(partition.EndDates())
			rep := weights.NewReport()
			procs = []*journal.Processor{
				journal.ComputePrices(valuation), check.Check(), journal.Valuate(reg, valuation), calc.ComputeValues(), calc.ComputeFlows(),
				weights.Query{Partition: partition}.Execute(b, rep), journal.Sort(),
			}
		}
		jn = b.Build()
		perr = jn.Process(procs...)
	})
	if p != nil {
		o.Violation = V("panic", "loading/processing panicked: %v\n%s", p, showFiles(c.Files)).With("fault", c.Fault)
		return o
	}
	loadFault := c.Fault == "syntax" || c.Fault == "missing-file" || c.Fault == "bad-account"
	pipeFault := c.Fault == "assertion" || c.Fault == "unopened" || c.Fault == "missing-price"
	switch {
	case loadFault:
		if lerr == nil {
			o.Violation = V("error-lost", "fault %q in %s, but journal.FromPath reports success\n%s", c.Fault, c.FaultFile, showFiles(c.Files)).With("fault", c.Fault)
			return o
		}
		if !c19FaultMatches(c.Fault, lerr) {
			o.Violation = V("foreign-error", "fault %q in %s, but the error is: %v", c.Fault, c.FaultFile, lerr).With("fault", c.Fault)
			return o
		}
	case lerr != nil:
		o.Violation = V("load-failed", "journal.FromPath failed on a valid include tree: %v\n%s", lerr, showFiles(c.Files))
		return o
	}
	if lerr == nil {
		// census: the journal is exactly the union of the directives of all files
		onlyJ, onlyG := multisetDiff(c19Census(b.Build()), c19Expected(c.Directives))
		if c.Pipeline == "balance" || c.Pipeline == "weights" || c.Pipeline == "returns" {
			// the pipeline appends generated transactions (value adjustments, closings) to the days: only user directives are compared
			var f []string
			for _, x := range onlyJ {
				if !strings.Contains(x, "|Adjust value of ") && !strings.Contains(x, "|Closing account ") {
					f = append(f, x)
				}
			}
			onlyJ = f
		}
		if len(onlyJ)+len(onlyG) > 0 {
			o.Violation = V("census", "the built journal is not the union of the files' directives\nonly in journal: %v\nonly in files: %v\n%s", clipList(onlyJ), clipList(onlyG), showFiles(c.Files))
			return o
		}
		if pipeFault {
			if perr == nil {
				o.Violation = V("error-lost", "fault %q injected, but Process reports success\n%s", c.Fault, showFiles(c.Files)).With("fault", c.Fault)
				return o
			}
			if !c19FaultMatches(c.Fault, perr) && !errors.Is(perr, context.Canceled) {
				o.Violation = V("foreign-error", "fault %q injected, but the error is: %v", c.Fault, perr).With("fault", c.Fault)
				return o
			}
			if errors.Is(perr, context.Canceled) && !c19FaultMatches(c.Fault, perr) {
				o.Violation = V("cancellation-reported", "fault %q injected, but Process returns only the cancellation (%v), not the error of the failing stage", c.Fault, perr).With("fault", c.Fault)
				return o
			}
		} else if perr != nil {
			o.Violation = V("process-failed", "processing failed on an accepted journal: %v\n%s", perr, showFiles(c.Files))
			return o
		}
	}
	// all goroutines of the loader and the pipeline are gone (nothing keeps running after an error)
	deadline := time.Now().Add(20 * time.Second)
	for runtime.NumGoroutine() > before+2 && time.Now().Before(deadline) {
		time.Sleep(5 * time.Millisecond)
	}
	if n := runtime.NumGoroutine(); n > before+2 {
		o.Violation = V("goroutine-leak", "%d goroutines before, %d still running 20 s after the call returned (fault %q)", before, n, c.Fault).With("fault", c.Fault)
		return o
	}
	days := map[ref.Day]bool{}
	for _, d := range c.Directives {
		days[d.Date] = true
	}
	stages := map[string]int{"check": 1, "balance": 6, "weights": 7, "returns": 7}[c.Pipeline]
	o.NonTrivial = len(c.Files) >= 3 && len(days) >= 20 && stages >= 3
	return o
}

func clipList(xs []string) []string {
	if len(xs) > 6 {
		return append(xs[:6:6], fmt.Sprintf("… %d more", len(xs)-6))
	}
	return xs
}

// checkC19CLI runs the -race build of knut over the same kind of input and compares with the plain binary.
func checkC19CLI(c C19Case) (o Outcome) {
	race := knutio.RaceBin()
	if race == "" {
		panic("harness: KNUT_RACE_BIN not set for C19")
	}
	dir, cleanup := knutio.Materialise(c.Files)
	defer cleanup()
	o.Labels = []string{"cli:" + c.Argv[0], fmt.Sprintf("files:%d", min(len(c.Files), 8)), "fault:" + c.Fault}
	plain := knutio.Run(knutio.Opts{Dir: dir}, c.Argv...)
	o.Evals = 1
	for i := 0; i < 3; i++ {
		env := []string{fmt.Sprintf("KNUT_VERIF_SCHED=%d", 1+i*7919+c.Procs), fmt.Sprintf("GOMAXPROCS=%d", []int{c.Procs, 16, 2}[i]), "GORACE=halt_on_error=1 exitcode=66"}
		r := knutio.Run(knutio.Opts{Dir: dir, Bin: race, Env: env, Timeout: 60 * time.Second}, c.Argv...)
		o.Evals++
		if strings.Contains(r.Stderr, "DATA RACE") || r.Exit == 66 {
			o.Violation = V("data-race", "knut -race %v reports a data race:\n%s", c.Argv, clip(r.Stderr, 3500)).With("cmd", c.Argv[0])
			return o
		}
		if strings.Contains(r.Stderr, "concurrent map") || r.Panicked() {
			o.Violation = V("crash", "knut -race %v: %s", c.Argv, r.Brief()).With("cmd", c.Argv[0])
			return o
		}
		if r.TimedOut {
			o.Violation = V("hang", "knut -race %v did not terminate (twice): %s", c.Argv, r.Brief()).With("cmd", c.Argv[0])
			return o
		}
		if r.Exit != plain.Exit {
			o.Violation = V("exit-differs", "knut %v: plain binary exits %d, race binary exits %d\n%s\n%s", c.Argv, plain.Exit, r.Exit, clip(plain.Stderr, 500), clip(r.Stderr, 500)).With("cmd", c.Argv[0])
			return o
		}
		if r.Stdout != plain.Stdout {
			o.Violation = V("stdout-differs", "knut %v: race binary prints something else than the plain binary\n%s", c.Argv, diffBrief(plain.Stdout, r.Stdout)).With("cmd", c.Argv[0])
			return o
		}
	}
	if c.Fault != "" && plain.Exit == 0 {
		o.Violation = V("error-lost", "fault %q in %s, but knut %v exits 0", c.Fault, c.FaultFile, c.Argv).With("fault", c.Fault)
		return o
	}
	days := map[ref.Day]bool{}
	for _, d := range c.Directives {
		days[d.Date] = true
	}
	o.NonTrivial = len(c.Files) >= 3 && len(days) >= 20
	return o
}

// drawC19 builds a larger journal over many days, deals it over an include tree and optionally injects one fault.
func drawC19(t *rapid.T, cli bool) C19Case {
	cfg := gen.HistCfg{
		MaxActions: rapid.SampledFrom([]int{40, 80, 150}).Draw(t, "maxActions"),
		Accruals:   rapid.IntRange(0, 2).Draw(t, "accruals") == 0,
		Assertions: true, Closes: true, Perf: true,
		Prices: 1,
		MaxDec: 4,
	}
	gen.MaybeLarge(t, &cfg, 4)
	j := gen.GenJournal(t, cfg)
	c := C19Case{Directives: j.Directives}
	c.V = rapid.SampledFrom(append([]string{""}, j.Commodities...)).Draw(t, "valuation")
	c.Interval = rapid.SampledFrom([]int{0, 2, 3, 3, 4, 5}).Draw(t, "interval")
	c.Procs = rapid.SampledFrom([]int{1, 2, 4, 16}).Draw(t, "procs")
	c.Pipeline = rapid.SampledFrom([]string{"balance", "balance", "balance", "check", "weights", "returns"}).Draw(t, "pipeline")
	if (c.Pipeline == "weights" || c.Pipeline == "returns") && c.V == "" {
		c.V = j.Commodities[0]
	}
	if c.Pipeline == "balance" && rapid.IntRange(0, 2).Draw(t, "mapping") != 0 {
		m := gen.Mapping{Level: rapid.IntRange(1, 3).Draw(t, "mLevel"), Suffix: rapid.SampledFrom([]int{0, 0, 1, 1, 2}).Draw(t, "mSuffix")}
		c.Mapping = &m
	}
	if c.Pipeline == "balance" && rapid.IntRange(0, 3).Draw(t, "remap") == 0 {
		c.Remap = rapid.SampledFrom([]string{"^Equity", "Bank", "."}).Draw(t, "remapRe")
	}
	// fault injection
	ds := append([]ref.Directive{}, j.Directives...)
	c.Fault = rapid.SampledFrom([]string{"", "", "", "syntax", "missing-file", "bad-account", "assertion", "unopened", "missing-price"}).Draw(t, "fault")
	lo, hi, _ := gen.DatesOf(j)
	someDay := lo + ref.Day(rapid.IntRange(0, int(hi-lo)).Draw(t, "faultDay"))
	switch c.Fault {
	case "assertion":
		ds = append(ds, ref.Directive{Kind: ref.KAssert, Date: someDay, Balances: []ref.Balance{{Account: j.Accounts[0], Qty: "123456789.123", Com: j.Commodities[0]}}})
	case "unopened":
		ds = append(ds, ref.Directive{Kind: ref.KTrx, Date: someDay, Desc: "fault", Bookings: []ref.Booking{{Credit: "Assets:NeverOpened", Debit: "Expenses:NeverOpened", Qty: "1", Com: j.Commodities[0]}}})
	case "missing-price":
		if c.V == "" || c.Pipeline == "check" {
			c.Fault = ""
		} else {
			ds = append(ds, ref.Directive{Kind: ref.KOpen, Date: lo, Account: "Assets:Unpriced"}, ref.Directive{Kind: ref.KOpen, Date: lo, Account: "Equity:Unpriced"},
				ref.Directive{Kind: ref.KTrx, Date: someDay, Desc: "fault", Bookings: []ref.Booking{{Credit: "Equity:Unpriced", Debit: "Assets:Unpriced", Qty: "1", Com: "NOPRICE"}}})
		}
	}
	c.Directives = ds
	tree := gen.SplitIntoTree(t, gen.Shuffle(t, ds), rapid.SampledFrom([]int{3, 8, 25}).Draw(t, "maxFiles"))
	if rapid.IntRange(0, 5).Draw(t, "wideNested") == 0 {
		// many files that each include a further file
		tree = gen.WideNestedTree(t, gen.Shuffle(t, ds), rapid.IntRange(12, 60).Draw(t, "wideNestedN"))
	}
	if rapid.IntRange(0, 11).Draw(t, "deepChain") == 0 {
		tree = gen.DeepChainTree(t, gen.Shuffle(t, ds), rapid.IntRange(17, 40).Draw(t, "chainDepth"))
	}
	c.Files, c.Main = tree.Files, tree.Main
	names := tree.SortedNames()
	leaf := names[rapid.IntRange(0, len(names)-1).Draw(t, "faultFile")]
	switch c.Fault {
	case "syntax":
		c.Files[leaf] += "2020-01-01 opne Assets:Typo\n"
		c.FaultFile = leaf
	case "missing-file":
		c.Files[leaf] += "include \"does-not-exist.knut\"\n"
		c.FaultFile = leaf
	case "bad-account":
		c.Files[leaf] += "2020-01-01 open Asset:BadType\n"
		c.FaultFile = leaf
	}
	if cli {
		var args []string
		switch c.Pipeline {
		case "check":
			args = []string{"check"}
		case "balance":
			args = []string{"balance", "--color=false"}
			if c.V != "" {
				args = append(args, "-v", c.V)
			}
			if f := ref.IntervalFlags[c.Interval]; f != "" {
				args = append(args, f)
			}
			if c.Mapping != nil {
				args = append(args, "-m", c.Mapping.Arg())
			}
			if c.Remap != "" {
				args = append(args, "--remap", c.Remap)
			}
		case "weights", "returns":
			args = []string{"portfolio", c.Pipeline, "-v", c.V}
			if f := ref.IntervalFlags[c.Interval]; f != "" {
				args = append(args, f)
			}
		}
		if rapid.IntRange(0, 5).Draw(t, "printInstead") == 0 {
			args = []string{"print"}
		} else if c.V != "" && rapid.IntRange(0, 6).Draw(t, "transcodeInstead") == 0 {
			args = []string{"transcode", "-v", c.V}
		}
		_, hi2, _ := gen.DatesOf(ref.Journal{Directives: ds})
		if hi2 > ref.FromCivil(2024, 6, 30) && (args[0] == "balance" || args[0] == "portfolio") {
			args = append(args, "--to", hi2.String())
		}
		if c.Fault == "missing-price" && (args[0] == "print" || args[0] == "check") {
			c.Fault = "" // these commands do not value anything
		}
		c.Argv = append(args, c.Main)
	}
	return c
}

func TestC19Lib(t *testing.T) {
	cur := os.Getenv("VERIF_REPLAY_OUT")
	rapid.Check(t, func(rt *rapid.T) {
		c := drawC19(rt, false)
		if cur != "" {
			// the race detector halts the process: keep the case being evaluated on disk
			b, _ := json.Marshal(ReplayFile{Property: "C19", Oracle: "library-census", Case: mustJSON(c), Note: "case under evaluation when the process stopped"})
			os.WriteFile(cur+".current", b, 0o644)
		}
		o := checkC19Lib(c)
		Record("C19", c, o)
		Report(rt, "C19", "library-census", c, o.Violation)
	})
	if cur != "" {
		os.Remove(cur + ".current")
	}
}

func mustJSON(v any) json.RawMessage {
	b, err := json.Marshal(v)
	if err != nil {
		panic(err)
	}
	return b
}

func TestC19CLI(t *testing.T) {
	runProp(t, "C19", "race-binary", func(t *rapid.T) C19Case { return drawC19(t, true) }, checkC19CLI)
}

// ---- registries under concurrent use: one object per name, whatever the interleaving.

type C19RegCase struct {
	Names      []string `json:"names"`
	Goroutines int      `json:"goroutines"`
	Rounds     int      `json:"rounds"`
	Accounts   bool     `json:"accounts"`
}

func init() { Register("C19", "registry", checkC19Registry) }

func checkC19Registry(c C19RegCase) (o Outcome) {
	o.Labels = []string{fmt.Sprintf("registry:accounts=%v", c.Accounts), fmt.Sprintf("goroutines:%d", c.Goroutines)}
	o.NonTrivial = len(c.Names) >= 2 && c.Goroutines >= 2
	for round := 0; round < c.Rounds; round++ {
		reg := registry.New()
		results := make([][]any, c.Goroutines)
		start := make(chan struct{})
		done := make(chan int, c.Goroutines)
		var perr any
		for g := 0; g < c.Goroutines; g++ {
			go func(g int) {
				defer func() {
					if p := recover(); p != nil {
						perr = p
					}
					done <- g
				}()
				<-start
				res := make([]any, len(c.Names))
				for k := range c.Names {
					// each goroutine walks the names from a different starting point
					i := (k + g*len(c.Names)/c.Goroutines) % len(c.Names)
					if c.Accounts {
						// the three ways the pipeline stages reach the account tree: by name, by path, by valuation mirror
						var a *model.Account
						var err error
						switch (g + k) % 3 {
						case 0:
							a, err = reg.Accounts().Get(c.Names[i])
						case 1:
							a, err = reg.Accounts().GetPath(strings.Split(c.Names[i], ":"))
						default:
							a, err = reg.Accounts().Get(c.Names[i])
							if err == nil && a.IsAL() {
								reg.Accounts().ValuationAccountFor(a)
							}
						}
						if err != nil {
							panic(err)
						}
						res[i] = a
					} else {
						cm, err := reg.Commodities().Get(c.Names[i])
						if err != nil {
							panic(err)
						}
						res[i] = cm
					}
				}
				results[g] = res
			}(g)
		}
		close(start)
		for g := 0; g < c.Goroutines; g++ {
			select {
			case <-done:
			case <-time.After(60 * time.Second):
				abandon("C19", "registry", c, V("hang", "registry lookups did not finish within 60 s"))
			}
		}
		if perr != nil {
			o.Violation = V("panic", "concurrent registry lookup panicked: %v", perr)
			return o
		}
		for i, name := range c.Names {
			for g := 1; g < c.Goroutines; g++ {
				if results[g][i] != results[0][i] {
					o.Violation = V("registry-duplicate", "name %q resolved to two different objects in concurrent lookups (goroutines 0 and %d, round %d)", name, g, round).
						With("accounts", fmt.Sprint(c.Accounts))
					return o
				}
			}
		}
	}
	return o
}

func drawC19Registry(t *rapid.T) C19RegCase {
	c := C19RegCase{Goroutines: rapid.SampledFrom([]int{2, 4, 8, 16}).Draw(t, "goroutines"), Rounds: rapid.IntRange(5, 40).Draw(t, "rounds"), Accounts: rapid.Bool().Draw(t, "accounts")}
	n := rapid.IntRange(1, 60).Draw(t, "nNames")
	for i := 0; i < n; i++ {
		if c.Accounts {
			typ := rapid.SampledFrom([]string{"Assets", "Liabilities", "Equity", "Income", "Expenses"}).Draw(t, "type")
			depth := rapid.IntRange(1, 3).Draw(t, "depth")
			name := typ
			for d := 0; d < depth; d++ {
				name += fmt.Sprintf(":S%d", rapid.IntRange(0, 5).Draw(t, "seg"))
			}
			c.Names = append(c.Names, name)
		} else {
			c.Names = append(c.Names, fmt.Sprintf("C%d", rapid.IntRange(0, 80).Draw(t, "com")))
		}
	}
	return c
}

func TestC19Registry(t *testing.T) {
	runProp(t, "C19", "registry", drawC19Registry, checkC19Registry)
}
