//go:build !no_c14

package props

import (
	"fmt"
	"os"
	"path"
	"path/filepath"
	"regexp"
	"sort"
	"strconv"
	"strings"
	"testing"
	"time"

	"github.com/sboehler/knut/lib/syntax/parser"
	"pgregory.net/rapid"

	"verifharness/gen"
	"verifharness/knutio"
	"verifharness/ref"
	"verifharness/stats"
)

// C14 — commands fail cleanly on every input.
//
// One case = one knut invocation on a freshly materialised directory (so that
// format / infer --inplace always work on copies). The oracle is the
// process-level predicate of the statement and nothing more:
//   - the command terminates (knutio.Run: only a repeated timeout is a hang),
//     under a 4 GB address-space limit so that memory exhaustion is observable;
//   - exit status 0, or non-zero with a non-empty stderr;
//   - no Go panic / fatal error trace, not killed by a signal;
//   - a bad file reachable through include directives ⇒ non-zero exit;
//   - balance / print / transcode / infer / check --write that fail leave stdout empty.

// Known defects of the pinned tree, confirmed with the inputs in corpus/C14.
// While a flag is true the class is excluded by construction (and counted in
// evidence as excluded_known) so that the search continues behind it; switch a
// flag off once the corresponding fix has landed in /repo.
var (
	// a file that includes itself, or an include cycle, never terminates (syntax.parseRec spawns forever)
	c14ExcludeIncludeCycle = false // fixed in /repo; the class is generated again
	// `transcode` without -v: nil commodity dereference in beancount.Transcode
	c14ExcludeTranscodeNoValuation = false // fixed in /repo; the class is generated again
	// `@accrue` whose end precedes its start: decimal division by zero in transaction.expand
	c14ExcludeAccrualEmptyWindow = false // fixed in /repo; the class is generated again
	// `-m` with a negative level or suffix: slice bounds out of range in account.Shorten
	c14ExcludeMappingNegative = false // fixed in /repo; the class is generated again
	// the date 0001-01-01 (Go's zero time) as first transaction date or accrual start: date.NewPartition panics
	c14ExcludeZeroTime = false // fixed in /repo; the class is generated again
	// |--digits| beyond a few thousand: quadratic formatting work / gigabytes (capped at 1000 while excluded)
	c14ExcludeHugeDigits = false // fixed in /repo; the class is generated again
)

const c14AddressSpace = "4294967296"

// VERIF_C14_NOEXCLUDE=name[,name...]|all switches exclusion flags off for one run
// (names as counted in excluded_known) without editing this file.
func init() {
	for _, n := range strings.Split(os.Getenv("VERIF_C14_NOEXCLUDE"), ",") {
		all := n == "all"
		if all || n == "include-cycle" {
			c14ExcludeIncludeCycle = false
		}
		if all || n == "transcode-no-valuation" {
			c14ExcludeTranscodeNoValuation = false
		}
		if all || n == "accrual-empty-window" {
			c14ExcludeAccrualEmptyWindow = false
		}
		if all || n == "mapping-negative" {
			c14ExcludeMappingNegative = false
		}
		if all || n == "zero-time-partition" {
			c14ExcludeZeroTime = false
		}
		if all || n == "huge-digits" {
			c14ExcludeHugeDigits = false
		}
	}
}

type C14Case struct {
	Cmd      string            `json:"cmd"`  // label of the command under test
	Args     []string          `json:"args"` // argv after the binary
	Files    map[string][]byte `json:"files"`
	Dirs     []string          `json:"dirs,omitempty"`     // directories to create (include / argument targets)
	Symlinks map[string]string `json:"symlinks,omitempty"` // name → target (dangling links and loops stand in for unreadable files)
	Main     string            `json:"main"`               // main journal file
	Root     string            `json:"root,omitempty"`     // = Main when the command really loads Main and its include graph
	// BadInclude: by construction a file reachable from Root through include directives is
	// missing / a directory / unreadable / not a journal / semantically invalid.
	BadInclude string   `json:"bad_include,omitempty"`
	Content    string   `json:"content"`         // generator class of the main file
	Graph      string   `json:"graph,omitempty"` // include graph shape
	Flags      string   `json:"flags"`           // default | valid | hostile
	Tags       []string `json:"tags,omitempty"`  // further generator labels
	Procs      string   `json:"procs,omitempty"` // GOMAXPROCS for the run ("" = all CPUs): termination must not depend on the CPU count
}

func init() { Register("C14", "clean-failure", checkC14) }

var c14IncludeRe = regexp.MustCompile(`^include[ \t]+"([^"]*)"`)

// c14Includes lists the include targets of a file, resolved like knut does
// (path.Join of the including file's directory and the quoted path), with the
// harness's own line recogniser.
func c14Includes(name string, content []byte) []string {
	var res []string
	for _, line := range strings.Split(string(content), "\n") {
		if m := c14IncludeRe.FindStringSubmatch(line); m != nil {
			res = append(res, path.Join(path.Dir(name), m[1]))
		}
	}
	return res
}

func (c C14Case) content(name string) ([]byte, bool) {
	for i := 0; i < 4; i++ {
		if b, ok := c.Files[name]; ok {
			return b, true
		}
		tgt, ok := c.Symlinks[name]
		if !ok {
			return nil, false
		}
		name = path.Join(path.Dir(name), tgt)
	}
	return nil, false
}

// c14HasCycle reports whether the include graph reachable from root contains a cycle.
func c14HasCycle(c C14Case, root string) bool {
	const (
		white = iota
		grey
		black
	)
	colour := map[string]int{}
	var visit func(n string, depth int) bool
	visit = func(n string, depth int) bool {
		switch colour[n] {
		case grey:
			return true
		case black:
			return false
		}
		b, ok := c.content(n)
		if !ok || depth > 200 {
			colour[n] = black
			return false
		}
		colour[n] = grey
		for _, m := range c14Includes(n, b) {
			if visit(m, depth+1) {
				return true
			}
		}
		colour[n] = black
		return false
	}
	return visit(path.Clean(root), 0)
}

func c14Materialise(c C14Case) (string, func()) {
	files := map[string]string{}
	for n, b := range c.Files {
		files[n] = string(b)
	}
	dir, cleanup := knutio.Materialise(files)
	for _, d := range c.Dirs {
		os.MkdirAll(filepath.Join(dir, d), 0o755)
	}
	for _, n := range sortedKeys(c.Symlinks) {
		p := filepath.Join(dir, n)
		os.MkdirAll(filepath.Dir(p), 0o755)
		os.Symlink(c.Symlinks[n], p)
	}
	return dir, cleanup
}

// c14Parses runs knut's parser in-process on the main file (labels and the
// non-trivial rule only; never part of the verdict).
func c14Parses(c C14Case) bool {
	b, ok := c.content(c.Main)
	if !ok {
		return false
	}
	okParse := false
	p := Guard("C14", "clean-failure", c, 60*time.Second, func() {
		ps := parser.New(string(b), c.Main)
		if err := ps.Advance(); err != nil {
			return
		}
		_, err := ps.ParseFile()
		okParse = err == nil
	})
	return okParse && p == nil
}

var c14StdoutEmptyOnFailure = map[string]bool{"balance": true, "print": true, "transcode": true, "infer": true, "check-write": true}

// c14CrashClass names the root cause of a crash from the trace, so that each
// confirmed defect can be matched precisely (kind + class).
func c14CrashClass(stderr string, args []string) string {
	switch {
	case strings.Contains(stderr, "beancount.Transcode") && strings.Contains(stderr, "nil pointer"):
		return "transcode-no-valuation"
	case strings.Contains(stderr, "decimal division by 0") && strings.Contains(stderr, "transaction.expand"):
		return "accrual-empty-window"
	case (strings.Contains(stderr, "slice bounds out of range") || strings.Contains(stderr, "makeslice")) && c14NegativeMapping(args) &&
		(strings.Contains(stderr, "Shorten") || strings.Contains(stderr, "weights.Query")):
		return "mapping-negative"
	case strings.Contains(stderr, "can't create partition with zero time"):
		return "zero-time-partition"
	}
	return "other"
}

// c14NegativeMapping reports whether a -m/--map value has a negative level or suffix.
func c14NegativeMapping(args []string) bool {
	for i, a := range args {
		v, ok := "", false
		switch {
		case strings.HasPrefix(a, "--map="):
			v, ok = strings.TrimPrefix(a, "--map="), true
		case (a == "--map" || a == "-m") && i+1 < len(args):
			v, ok = args[i+1], true
		case strings.HasPrefix(a, "-m") && !strings.HasPrefix(a, "--"):
			v, ok = strings.TrimPrefix(a, "-m"), true
		}
		if !ok {
			continue
		}
		if m := c14MapHeadRe.FindStringSubmatch(v); m != nil && (strings.HasPrefix(m[1], "-") || strings.HasPrefix(m[2], "-")) {
			return true
		}
	}
	return false
}

func c14PanicLine(stderr string) string {
	for _, l := range strings.Split(stderr, "\n") {
		if strings.Contains(l, "panic:") || strings.Contains(l, "fatal error:") {
			return clip(strings.TrimSpace(l), 200)
		}
	}
	return ""
}

func c14DigitsArg(args []string) (int64, bool) {
	for i, a := range args {
		v := ""
		switch {
		case strings.HasPrefix(a, "--digits="):
			v = strings.TrimPrefix(a, "--digits=")
		case a == "--digits" && i+1 < len(args):
			v = args[i+1]
		default:
			continue
		}
		if n, err := strconv.ParseInt(v, 10, 32); err == nil {
			return n, true
		}
	}
	return 0, false
}

func checkC14(c C14Case) (o Outcome) {
	o.Labels = append(o.Labels, "cmd:"+c.Cmd, "content:"+c.Content, "flags:"+c.Flags)
	if c.Graph != "" {
		o.Labels = append(o.Labels, "graph:"+c.Graph)
	}
	if c.BadInclude != "" {
		o.Labels = append(o.Labels, "include-fault:"+c.BadInclude)
	}
	o.Labels = append(o.Labels, c.Tags...)
	parsed := c14Parses(c)
	mainBytes, _ := c.content(c.Main)
	hasInclude := len(c14Includes(c.Main, mainBytes)) > 0
	if parsed {
		o.Labels = append(o.Labels, "main-parses")
	}
	if hasInclude {
		o.Labels = append(o.Labels, "main-has-include")
	}
	o.NonTrivial = parsed || hasInclude || c.Flags != "default"

	dir, cleanup := c14Materialise(c)
	defer cleanup()
	var env []string
	if c.Procs != "" {
		env = []string{"GOMAXPROCS=" + c.Procs}
	}
	r := knutio.Run(knutio.Opts{Dir: dir, Env: env, Prefix: []string{"prlimit", "--as=" + c14AddressSpace}}, c.Args...)
	o.Evals = 1
	if r.Exit == -2 {
		panic("C14: could not start knut: " + r.Stderr)
	}
	describe := func() string {
		var names []string
		for _, n := range sortedKeys(c.Files) {
			names = append(names, fmt.Sprintf("%s(%dB)", n, len(c.Files[n])))
		}
		return fmt.Sprintf("knut %q\nfiles: %s dirs: %v symlinks: %v\n--%s--\n%s\n%s", c.Args, strings.Join(names, " "), c.Dirs, c.Symlinks,
			c.Main, clip(string(mainBytes), 1500), r.Brief())
	}
	cyc := c.Root != "" && c14HasCycle(c, c.Root)
	switch {
	case r.TimedOut:
		class := "other"
		if cyc {
			class = "include-cycle"
		} else if n, ok := c14DigitsArg(c.Args); ok && (n > 1000 || n < -1000) {
			class = "huge-digits"
		}
		o.Violation = V("hang", "the command did not terminate (20 s, then 90 s)\n%s", describe()).With("class", class).With("cmd", c.Cmd)
		o.Labels = append(o.Labels, "outcome:hang")
		return o
	case strings.Contains(r.Stderr, "out of memory") || strings.Contains(r.Stderr, "cannot allocate memory"):
		class := "other"
		if cyc {
			class = "include-cycle"
		} else if n, ok := c14DigitsArg(c.Args); ok && (n > 1000 || n < -1000) {
			class = "huge-digits"
		}
		o.Violation = V("memory", "the command exhausted the 4 GB address space\n%s", describe()).With("class", class).With("cmd", c.Cmd)
		o.Labels = append(o.Labels, "outcome:memory")
		return o
	case r.Panicked():
		o.Violation = V("panic", "the command crashed: %s\n%s", c14PanicLine(r.Stderr), describe()).
			With("class", c14CrashClass(r.Stderr, c.Args)).With("cmd", c.Cmd).With("panic", c14PanicLine(r.Stderr))
		o.Labels = append(o.Labels, "outcome:panic")
		return o
	case r.Signaled:
		o.Violation = V("signal", "the command was killed by a signal\n%s", describe()).With("cmd", c.Cmd)
		o.Labels = append(o.Labels, "outcome:signal")
		return o
	}
	if r.Exit == 0 {
		o.Labels = append(o.Labels, "outcome:success")
		if c.BadInclude != "" && c.Root != "" {
			o.Violation = V("bad-include-accepted", "an included file is bad (%s) but the command exits 0\n%s", c.BadInclude, describe()).
				With("fault", c.BadInclude).With("cmd", c.Cmd)
		}
		return o
	}
	switch {
	case c.Flags == "hostile":
		o.Labels = append(o.Labels, "outcome:flag-fault-or-error")
	case c.BadInclude != "":
		o.Labels = append(o.Labels, "outcome:include-fault")
	case !parsed:
		o.Labels = append(o.Labels, "outcome:syntax-error")
	default:
		o.Labels = append(o.Labels, "outcome:semantic-error")
	}
	if strings.TrimSpace(r.Stderr) == "" {
		o.Violation = V("no-diagnostic", "exit status %d without a diagnostic on stderr\n%s", r.Exit, describe()).With("cmd", c.Cmd)
		return o
	}
	if c14StdoutEmptyOnFailure[c.Cmd] && r.Stdout != "" {
		o.Violation = V("stdout-on-failure", "%s fails (exit %d) but has written %d bytes to stdout\n%s", c.Cmd, r.Exit, len(r.Stdout), describe()).With("cmd", c.Cmd)
		return o
	}
	return o
}

// ---------------------------------------------------------------------------
// generators

type c14Draw struct {
	t     *rapid.T
	c     *C14Case
	accs  []string // names usable in regexes / -a
	coms  []string // commodities usable for -v
	bound bool     // dates of the content are bounded by construction (≤ ~100 years)
	fault bool     // a hostile flag/argument value was drawn
}

func (d *c14Draw) tag(s string) { d.c.Tags = append(d.c.Tags, s) }

func c14Excluded(name string) { stats.Get("C14").Excluded(name) }

func c14Pick[T any](t *rapid.T, label string, xs ...T) T {
	return rapid.SampledFrom(xs).Draw(t, label)
}

// c14Chance is true with probability 1/oneIn; it shrinks towards false.
func c14Chance(t *rapid.T, label string, oneIn int) bool {
	return rapid.IntRange(0, oneIn-1).Draw(t, label) == oneIn-1
}

var c14EmptyContents = []string{"", "\n", "\n\n\n", " ", "\t\n", "# comment\n", "* heading\n// note\n", "#", "\r\n", "\xef\xbb\xbf", "# no newline", "// a\n\n# b\n\n\n* c\n", "   \n\t\n \n"}

func c14ValidJournal(t *rapid.T, small bool) ref.Journal {
	cfg := gen.HistCfg{
		MaxActions: c14Pick(t, "maxActions", 3, 6, 12, 25),
		Accruals:   c14Chance(t, "accruals", 3),
		Perf:       c14Chance(t, "perf", 3),
		Assertions: true, Closes: true,
		Prices:  c14Pick(t, "prices", 0, 1, 1, 2),
		MaxDec:  c14Pick(t, "maxDec", 2, 4, 8),
		Unicode: c14Chance(t, "unicode", 4),
	}
	if small {
		cfg.MaxActions = c14Pick(t, "maxActionsSmall", 2, 4, 8)
	} else {
		gen.MaybeLarge(t, &cfg, 5)
	}
	return gen.GenJournal(t, cfg)
}

// c14Odd draws a syntactically (mostly) valid but semantically odd journal.
func (d *c14Draw) odd() string {
	t := d.t
	var b strings.Builder
	// the surrounding well-formed journal is optional so that failing cases shrink to the odd directive alone
	context := rapid.IntRange(0, 3).Draw(t, "oddContext") != 0
	if context {
		b.WriteString("2019-01-01 open Assets:Bank\n2019-01-01 open Assets:Broker\n2019-01-01 open Expenses:Food\n2019-01-01 open Income:Salary\n2019-01-01 open Equity:Accrual\n2019-01-01 open Equity:Equity\n")
		b.WriteString("2019-01-01 price USD 0.9 CHF\n2019-01-01 price AAPL 150 USD\n")
		b.WriteString("2019-01-05 \"salary\"\nIncome:Salary Assets:Bank 5000 CHF\n\n")
	}
	trx := func(date, desc, cr, dr, qty, com string) string {
		return fmt.Sprintf("%s \"%s\"\n%s %s %s %s\n\n", date, desc, cr, dr, qty, com)
	}
	rep := func(s string, n int) string { return strings.Repeat(s, n) }
	iv := func() string { return c14Pick(t, "iv", "daily", "weekly", "monthly", "quarterly") }
	kinds := []string{"accrual-inverted", "accrual-same-day", "accrual-long", "accrual-no-ie", "accrual-unopened", "accrual-income-account",
		"date-min", "date-max", "amount-400-digits", "amount-400-decimals", "account-type", "invalid-date", "long-token", "unicode-digits",
		"price-zero", "price-negative", "price-self", "price-tiny", "same-account", "zero-amount", "performance", "assertion", "close", "open-twice",
		"no-bookings", "description", "many"}
	n := rapid.IntRange(1, 3).Draw(t, "nOdd")
	for i := 0; i < n; i++ {
		k := rapid.SampledFrom(kinds).Draw(t, "odd")
		d.tag("odd:" + k)
		switch k {
		case "accrual-inverted":
			s, e := "2020-06-01", c14Pick(t, "accEnd", "2020-05-31", "2020-01-01", "1999-12-31", "2019-06-01")
			if c14ExcludeAccrualEmptyWindow {
				c14Excluded("accrual-empty-window")
				s, e = e, s
			}
			fmt.Fprintf(&b, "@accrue %s %s %s Equity:Accrual\n%s", iv(), s, e, trx("2020-01-02", "inverted", "Assets:Bank", "Expenses:Food", "120", "CHF"))
		case "accrual-same-day":
			fmt.Fprintf(&b, "@accrue %s 2020-03-31 2020-03-31 Equity:Accrual\n%s", iv(), trx("2020-01-02", "one day", "Assets:Bank", "Expenses:Food", "0.01", "CHF"))
		case "accrual-long":
			ivl := iv()
			end := "2219-12-31"
			if ivl == "daily" {
				end = "2069-12-31"
			}
			fmt.Fprintf(&b, "@accrue %s 2020-01-01 %s Equity:Accrual\n%s", ivl, end, trx("2020-01-02", "long", "Assets:Bank", "Expenses:Food", "1", "CHF"))
		case "accrual-no-ie":
			fmt.Fprintf(&b, "@accrue %s 2020-01-01 2020-12-31 Equity:Accrual\n%s", iv(), trx("2020-01-02", "no i/e leg", "Assets:Bank", "Assets:Broker", "10", "CHF"))
		case "accrual-unopened":
			fmt.Fprintf(&b, "@accrue %s 2020-01-01 2020-12-31 Assets:Nowhere\n%s", iv(), trx("2020-01-02", "unopened accrual account", "Assets:Bank", "Expenses:Food", "10", "CHF"))
		case "accrual-income-account":
			fmt.Fprintf(&b, "@accrue %s 2020-01-01 2020-12-31 Income:Salary\n%s", iv(), trx("2020-01-02", "accrue to income", "Income:Salary", "Expenses:Food", "10", "CHF"))
		case "date-min":
			dt := c14Pick(t, "minDate", "0001-01-01", "0001-01-01", "0001-01-02", "0001-12-31", "0000-01-01")
			if dt == "0001-01-01" && c14ExcludeZeroTime {
				c14Excluded("zero-time-partition")
				dt = "0001-01-02"
			}
			switch rapid.IntRange(0, 3).Draw(t, "minWhere") {
			case 0:
				fmt.Fprintf(&b, "%s open Assets:Old\n%s open Expenses:Old\n%s", dt, dt, trx(dt, "first day", "Assets:Old", "Expenses:Old", "1", "CHF"))
			case 1:
				fmt.Fprintf(&b, "%s price CHF 1 USD\n", dt)
			case 2:
				fmt.Fprintf(&b, "@accrue monthly %s 0005-01-01 Equity:Accrual\n%s", dt, trx("2020-01-02", "early accrual", "Assets:Bank", "Expenses:Food", "1", "CHF"))
			case 3:
				fmt.Fprintf(&b, "%s open Assets:Old\n%s balance Assets:Old 0 CHF\n", dt, dt)
			}
		case "date-max":
			dt := c14Pick(t, "maxDate", "9999-12-31", "9999-12-31", "9999-12-30", "9999-01-01")
			switch rapid.IntRange(0, 3).Draw(t, "maxWhere") {
			case 0:
				b.WriteString(trx(dt, "last day", "Assets:Bank", "Expenses:Food", "1", "CHF"))
			case 1:
				fmt.Fprintf(&b, "%s price CHF 1 USD\n", dt)
			case 2:
				fmt.Fprintf(&b, "@accrue quarterly 9990-01-01 %s Equity:Accrual\n%s", dt, trx("2020-01-02", "late accrual", "Assets:Bank", "Expenses:Food", "1", "CHF"))
			case 3:
				fmt.Fprintf(&b, "%s balance Assets:Bank 0 CHF\n%s close Assets:Broker\n", dt, dt)
			}
		case "amount-400-digits":
			q := c14Pick(t, "sign", "", "-") + "1" + rep("0", 399)
			b.WriteString(trx("2020-02-01", "huge", "Assets:Bank", "Expenses:Food", q, c14Pick(t, "hugeCom", "CHF", "USD", "AAPL")))
			if c14Chance(t, "hugeAssert", 2) {
				fmt.Fprintf(&b, "2020-02-02 balance Expenses:Food %s CHF\n", q)
			}
		case "amount-400-decimals":
			q := "0." + rep("0", 399) + "1"
			switch rapid.IntRange(0, 2).Draw(t, "decWhere") {
			case 0:
				b.WriteString(trx("2020-02-01", "tiny", "Assets:Bank", "Expenses:Food", q, "CHF"))
			case 1:
				fmt.Fprintf(&b, "2020-02-01 price USD %s CHF\n", q)
			case 2:
				fmt.Fprintf(&b, "2020-02-01 price AAPL 1%s USD\n", rep("0", 399))
			}
		case "account-type":
			a := c14Pick(t, "badType", "Foo:Bar", "assets:bank", "Assets", "Assets:", ":Bank", "Assets::Bank", "Equity", "TBD")
			switch rapid.IntRange(0, 2).Draw(t, "typeWhere") {
			case 0:
				fmt.Fprintf(&b, "2019-01-01 open %s\n", a)
			case 1:
				b.WriteString(trx("2020-02-01", "bad type", a, "Expenses:Food", "1", "CHF"))
			case 2:
				fmt.Fprintf(&b, "2020-02-01 balance %s 1 CHF\n", a)
			}
		case "invalid-date":
			dt := c14Pick(t, "badDate", "2020-13-45", "2020-02-30", "2021-02-29", "2020-00-10", "2020-01-00", "0000-00-00", "9999-99-99", "2020-1-1", "20200101")
			switch rapid.IntRange(0, 3).Draw(t, "dateWhere") {
			case 0:
				fmt.Fprintf(&b, "%s open Assets:Late\n", dt)
			case 1:
				b.WriteString(trx(dt, "bad date", "Assets:Bank", "Expenses:Food", "1", "CHF"))
			case 2:
				fmt.Fprintf(&b, "@accrue monthly 2020-01-01 %s Equity:Accrual\n%s", dt, trx("2020-01-02", "bad accrual date", "Assets:Bank", "Expenses:Food", "1", "CHF"))
			case 3:
				fmt.Fprintf(&b, "%s price USD 1 CHF\n", dt)
			}
		case "long-token":
			long := rep(c14Pick(t, "longCh", "A", "x", "é", "9"), 10000)
			switch rapid.IntRange(0, 4).Draw(t, "longWhere") {
			case 0:
				fmt.Fprintf(&b, "2019-01-01 open Assets:%s\n%s", long, trx("2020-02-01", "long account", "Assets:"+long, "Expenses:Food", "1", "CHF"))
			case 1:
				b.WriteString(trx("2020-02-01", "long commodity", "Assets:Bank", "Expenses:Food", "1", long))
			case 2:
				b.WriteString(trx("2020-02-01", long, "Assets:Bank", "Expenses:Food", "1", "CHF"))
			case 3:
				b.WriteString(trx("2020-02-01", "long number", "Assets:Bank", "Expenses:Food", rep("7", 10000), "CHF"))
			case 4:
				fmt.Fprintf(&b, "# %s\n%s\n", long, long)
			}
		case "unicode-digits":
			switch rapid.IntRange(0, 4).Draw(t, "uniWhere") {
			case 0:
				b.WriteString(trx("2020-02-01", "unicode commodity", "Assets:Bank", "Expenses:Food", "1", c14Pick(t, "uniCom", "１２", "A٣", "٣", "Ⅷ", "²", "円", "A１")))
			case 1:
				a := "Assets:" + c14Pick(t, "uniAcc", "٣٤", "Ⅷ", "１", "Bank²", "口座１")
				fmt.Fprintf(&b, "2019-01-01 open %s\n%s", a, trx("2020-02-01", "unicode account", a, "Expenses:Food", "1", "CHF"))
			case 2:
				b.WriteString(trx("2020-02-01", "unicode amount", "Assets:Bank", "Expenses:Food", c14Pick(t, "uniQty", "１２", "1٣", "٣.٥", "1.５"), "CHF"))
			case 3:
				b.WriteString(trx(c14Pick(t, "uniDate", "２０２０-０１-０１", "2020-0１-01", "٢٠٢٠-٠١-٠١"), "unicode date", "Assets:Bank", "Expenses:Food", "1", "CHF"))
			case 4:
				fmt.Fprintf(&b, "@performance(%s)\n%s", c14Pick(t, "uniPerf", "１２", "٣,CHF"), trx("2020-02-01", "unicode target", "Assets:Bank", "Assets:Broker", "1", "CHF"))
			}
		case "price-zero":
			fmt.Fprintf(&b, "2020-01-10 price %s %s %s\n%s", c14Pick(t, "pzCom", "USD", "AAPL", "CHF"), c14Pick(t, "pz", "0", "0.0", "-0", "0.000000001"), c14Pick(t, "pzTgt", "CHF", "USD"),
				trx("2020-01-11", "zero price", "Assets:Bank", "Assets:Broker", "10", c14Pick(t, "pzBook", "USD", "AAPL")))
		case "price-negative":
			fmt.Fprintf(&b, "2020-01-10 price USD -0.9 CHF\n%s", trx("2020-01-11", "negative price", "Assets:Bank", "Assets:Broker", "10", "USD"))
		case "price-self":
			fmt.Fprintf(&b, "2020-01-10 price CHF %s CHF\n%s", c14Pick(t, "psv", "1", "2", "0"), trx("2020-01-11", "self price", "Assets:Bank", "Assets:Broker", "10", "USD"))
		case "price-tiny":
			fmt.Fprintf(&b, "2020-01-10 price XYZ 0.00000001 CHF\n2020-01-10 price CHF 0.00000001 ABC\n%s%s", trx("2020-01-11", "tiny price", "Assets:Bank", "Assets:Broker", "100000000000", "XYZ"),
				trx("2020-01-11", "tiny price", "Assets:Bank", "Assets:Broker", "1", "ABC"))
		case "same-account":
			b.WriteString(trx("2020-02-01", "same account", "Assets:Bank", "Assets:Bank", "10", "CHF"))
		case "zero-amount":
			b.WriteString(trx("2020-02-01", "zero", "Assets:Bank", "Expenses:Food", c14Pick(t, "zq", "0", "-0", "0.0", "00", "+1", "1.", ".5", "1e3", "1,000"), "CHF"))
		case "performance":
			fmt.Fprintf(&b, "@performance(%s)\n%s", c14Pick(t, "perf", "", "ZZZ", "CHF,CHF", "USD,AAPL,CHF", " CHF ", "CHF,"), trx("2020-02-01", "perf", "Assets:Bank", "Assets:Broker", "10", "USD"))
		case "assertion":
			switch rapid.IntRange(0, 3).Draw(t, "assWhere") {
			case 0:
				b.WriteString("2020-02-01 balance Assets:Nowhere 0 CHF\n")
			case 1:
				b.WriteString("2020-02-01 balance\nAssets:Bank 5000 CHF\nAssets:Bank 5000 CHF\nAssets:Broker 0 ZZZ\n\n")
			case 2:
				b.WriteString("2018-01-01 balance Assets:Bank 0 CHF\n")
			case 3:
				b.WriteString("2020-02-01 balance Assets:Bank 4999.99999999999 CHF\n")
			}
		case "close":
			b.WriteString(c14Pick(t, "closeKind", "2020-02-01 close Assets:Nowhere\n", "2020-02-01 close Assets:Broker\n2020-02-01 close Assets:Broker\n", "2018-01-01 close Assets:Broker\n",
				"2020-02-01 close Assets:Broker\n2020-02-01 open Assets:Broker\n", "2020-02-01 close Assets:Bank\n"))
		case "open-twice":
			b.WriteString("2019-01-01 open Assets:Bank\n")
		case "no-bookings":
			b.WriteString(c14Pick(t, "nb", "2020-02-01 \"nothing\"\n\n", "2020-02-01 \"nothing\"", "2020-02-01 \"unterminated\nAssets:Bank Expenses:Food 1 CHF\n\n", "@accrue monthly 2020-01-01 2020-12-31 Equity:Accrual\n\n"))
		case "description":
			b.WriteString(trx("2020-02-01", c14Pick(t, "desc", "", "line\nbreak", "tab\there", "\\", "'", "\r", "\x01", "\xff\xfe"), "Assets:Bank", "Expenses:Food", "1", "CHF"))
		case "many":
			m := c14Pick(t, "many", 200, 800)
			for j := 0; j < m; j++ {
				fmt.Fprintf(&b, "2020-03-%02d \"t%d\"\nAssets:Bank Expenses:Food %d.%02d CHF\n\n", 1+j%28, j, j, j%100)
			}
		}
	}
	if context {
		b.WriteString(trx("2020-06-30", "lunch", "Assets:Bank", "Expenses:Food", "12.50", "CHF"))
	}
	d.accs = []string{"Assets:Bank", "Assets:Broker", "Expenses:Food", "Income:Salary", "Equity:Accrual"}
	d.coms = []string{"CHF", "USD", "AAPL"}
	return b.String()
}

var c14Garbage = []string{"this is not a journal\n", "???\n", "2020-01-01 frobnicate Assets:A\n", "2020-01-01 open\n", "\xff\xfe\x00", "2020-01-01 \"unterminated\n", "include\n", "@accrue\n",
	"2020-01-01 open Assets:A\nAssets:A Expenses:B 1 CHF\n", "{\"json\": true}\n"}

var c14SemanticBad = []string{"2020-01-01 open Foo:Bar\n", "2020-01-01 open assets:lower\n", "2020-01-01 \"x\"\nBogus:A Assets:B 1 CHF\n\n", "2020-01-01 close NoType\n"}

// single-file content of a drawn class; sets d.accs / d.coms / d.bound.
func (d *c14Draw) content(class string) []byte {
	t := d.t
	d.accs = []string{"Assets:Bank", "Expenses:Food"}
	d.coms = []string{"CHF", "USD"}
	d.bound = false
	switch class {
	case "bytes":
		return rapid.SliceOfN(rapid.Byte(), 0, 200).Draw(t, "bytes")
	case "soup":
		return []byte(gen.TokenSoup(t))
	case "empty":
		d.bound = true
		if c14Chance(t, "bigComment", 12) {
			return []byte(strings.Repeat("# only a comment line, nothing else\n", 1700))
		}
		return []byte(rapid.SampledFrom(c14EmptyContents).Draw(t, "empty"))
	case "odd":
		return []byte(d.odd())
	case "valid":
		j := c14ValidJournal(t, false)
		d.accs, d.coms, d.bound = j.Accounts, j.Commodities, true
		if c14Chance(t, "noisy", 3) {
			return []byte(gen.RenderNoisy(t, j.Directives))
		}
		return []byte(j.Text())
	case "syntax":
		ds := gen.GenSyntaxJournal(t, 10, c14Chance(t, "syntaxIncludes", 3))
		d.bound = true
		d.coms = []string{"CHF", "USD", "AAPL", "円"}
		return []byte(gen.RenderNoisy(t, ds))
	case "mutated":
		var s string
		if rapid.Bool().Draw(t, "mutValid") {
			j := c14ValidJournal(t, true)
			d.accs, d.coms = j.Accounts, j.Commodities
			s = j.Text()
		} else {
			s = gen.RenderNoisy(t, gen.GenSyntaxJournal(t, 8, false))
		}
		return []byte(gen.Mutate(t, s))
	}
	panic("unknown content class " + class)
}

var c14NodeNames = []string{"a.knut", "b.knut", "sub/c.knut", "sub/deep/d.knut", "with space.knut", "ü.knut", "e.prices", "other/f.knut", "sub/g.knut", "h.knut"}

// c14Rel writes the include path of target as seen from the including file.
func c14Rel(t *rapid.T, from, target string) string {
	rel, err := filepath.Rel(path.Dir(from), target)
	if err != nil {
		rel = target
	}
	switch rapid.IntRange(0, 9).Draw(t, "relNoise") {
	case 0:
		return "./" + rel
	case 1:
		return "sub/../" + rel
	case 2:
		return rel + "/"
	}
	return rel
}

// graph builds an include graph rooted at main.knut whose files hold a valid
// journal dealt over the nodes, then optionally plants one fault.
func (d *c14Draw) graph() {
	t, c := d.t, d.c
	j := c14ValidJournal(t, false)
	d.accs, d.coms, d.bound = j.Accounts, j.Commodities, true
	shape := c14Pick(t, "shape", "single", "chain", "deep-chain", "tree", "diamond", "dup", "self", "mutual", "cycle3", "wide-nested")
	if (shape == "self" || shape == "mutual" || shape == "cycle3") && c14ExcludeIncludeCycle {
		c14Excluded("include-cycle")
		shape = "chain"
	}
	c.Graph = shape
	c.Main = "main.knut"
	names := []string{c.Main}
	edges := map[string][]string{}
	add := func(from, to string) { edges[from] = append(edges[from], to) }
	pool := append([]string{}, c14NodeNames...)
	fresh := func() string {
		if len(pool) == 0 {
			n := fmt.Sprintf("chain/n%d.knut", len(names))
			names = append(names, n)
			return n
		}
		i := rapid.IntRange(0, len(pool)-1).Draw(t, "node")
		n := pool[i]
		pool = append(pool[:i:i], pool[i+1:]...)
		names = append(names, n)
		return n
	}
	switch shape {
	case "single":
		add(c.Main, fresh())
	case "chain", "deep-chain":
		n := rapid.IntRange(2, 5).Draw(t, "chainLen")
		if shape == "deep-chain" {
			n = rapid.IntRange(12, 40).Draw(t, "deepLen")
			pool = nil
		}
		cur := c.Main
		for i := 0; i < n; i++ {
			nx := fresh()
			add(cur, nx)
			cur = nx
		}
	case "wide-nested":
		// many files that each include another file (a year of month files with their own sub-files):
		// many parsers are in flight at once and each of them spawns a further one
		pool = nil
		n := rapid.IntRange(16, 70).Draw(t, "wideN")
		for i := 0; i < n; i++ {
			mid := fresh()
			add(c.Main, mid)
			add(mid, fresh())
		}
	case "tree":
		n := rapid.IntRange(2, 7).Draw(t, "treeN")
		for i := 0; i < n; i++ {
			parent := names[rapid.IntRange(0, len(names)-1).Draw(t, "parent")]
			add(parent, fresh())
		}
	case "diamond":
		l, r, bottom := fresh(), fresh(), fresh()
		add(c.Main, l)
		add(c.Main, r)
		add(l, bottom)
		add(r, bottom)
		if rapid.Bool().Draw(t, "diamondTail") {
			add(bottom, fresh())
		}
	case "dup":
		x := fresh()
		add(c.Main, x)
		add(c.Main, x)
	case "self":
		if rapid.Bool().Draw(t, "selfAtRoot") {
			add(c.Main, c.Main)
		} else {
			x := fresh()
			add(c.Main, x)
			add(x, x)
		}
	case "mutual":
		x := fresh()
		add(c.Main, x)
		add(x, c.Main)
	case "cycle3":
		x, y, z := fresh(), fresh(), fresh()
		add(c.Main, x)
		add(x, y)
		add(y, z)
		add(z, x)
	}
	// deal the directives to the files
	texts := map[string]*strings.Builder{}
	for _, n := range names {
		texts[n] = &strings.Builder{}
	}
	for _, dir := range j.Directives {
		n := names[rapid.IntRange(0, len(names)-1).Draw(t, "deal")]
		texts[n].WriteString(dir.Render())
	}
	// plant a fault
	fault := c14Pick(t, "fault", "none", "none", "none", "missing", "directory", "empty-path", "garbage-leaf", "semantic-leaf", "symlink-loop", "dangling-symlink", "mutated-leaf")
	leafOf := func() string { return names[rapid.IntRange(0, len(names)-1).Draw(t, "faultAt")] }
	switch fault {
	case "missing":
		add(leafOf(), c14Pick(t, "missingName", "missing.knut", "sub/missing.knut", "../outside.knut", "nodir/x.knut", "MAIN.KNUT"))
		c.BadInclude = fault
	case "directory":
		dn := c14Pick(t, "dirName", "adir", "sub/bdir", "adir.knut")
		c.Dirs = append(c.Dirs, dn)
		add(leafOf(), dn)
		c.BadInclude = fault
	case "empty-path":
		// include "" resolves to the directory of the including file
		at := leafOf()
		texts[at].WriteString("include \"\"\n")
		c.BadInclude = fault
	case "garbage-leaf":
		x := fresh()
		texts[x] = &strings.Builder{}
		texts[x].WriteString(rapid.SampledFrom(c14Garbage).Draw(t, "garbage"))
		add(leafOf0(t, names[:len(names)-1]), x)
		c.BadInclude = fault
	case "semantic-leaf":
		x := fresh()
		texts[x] = &strings.Builder{}
		texts[x].WriteString(rapid.SampledFrom(c14SemanticBad).Draw(t, "semanticBad"))
		add(leafOf0(t, names[:len(names)-1]), x)
		c.BadInclude = fault
	case "symlink-loop":
		c.Symlinks = map[string]string{"loop.knut": "loop.knut"}
		add(leafOf(), "loop.knut")
		c.BadInclude = fault
	case "dangling-symlink":
		c.Symlinks = map[string]string{"dangling.knut": "nowhere.knut"}
		add(leafOf(), "dangling.knut")
		c.BadInclude = fault
	case "mutated-leaf":
		// no claim: the mutation may or may not break the file
		x := fresh()
		texts[x] = &strings.Builder{}
		texts[x].WriteString(gen.Mutate(t, "2020-01-01 open Assets:Leaf\n2020-01-02 \"x\"\nAssets:Leaf Assets:Leaf 1 CHF\n\n"))
		add(leafOf0(t, names[:len(names)-1]), x)
		d.tag("fault:mutated-leaf")
	}
	c.Files = map[string][]byte{}
	for _, n := range names {
		var b strings.Builder
		incs := edges[n]
		atEnd := rapid.Bool().Draw(t, "includesAtEnd")
		if atEnd {
			b.WriteString(texts[n].String())
		}
		for _, to := range incs {
			fmt.Fprintf(&b, "include \"%s\"\n", c14RelOrRaw(t, n, to))
		}
		if !atEnd {
			b.WriteString(texts[n].String())
		}
		c.Files[n] = []byte(b.String())
	}
}

func leafOf0(t *rapid.T, names []string) string {
	return names[rapid.IntRange(0, len(names)-1).Draw(t, "faultParent")]
}

func c14RelOrRaw(t *rapid.T, from, to string) string {
	if strings.HasSuffix(to, "/") {
		return to
	}
	rel := c14Rel(t, from, to)
	if strings.HasSuffix(rel, "/") && !strings.Contains(to, "dir") {
		// a trailing slash on a regular file is a different fault (ENOTDIR): keep it only for directories
		rel = strings.TrimSuffix(rel, "/")
	}
	return rel
}

// --- flags ---

type c14Flag struct {
	name  string // long name
	short string
	kind  string
}

var c14FlagTable = map[string][]c14Flag{
	"balance": {{"cpuprofile", "", "profile"}, {"diff", "d", "bool"}, {"csv", "", "bool"}, {"close", "", "bool"}, {"sort", "a", "bool"},
		{"show-commodities", "s", "regex"}, {"val", "v", "commodity"}, {"map", "m", "mapping"}, {"remap", "r", "regex"}, {"account", "", "regex"},
		{"commodity", "", "regex"}, {"digits", "", "digits"}, {"thousands", "k", "bool"}, {"color", "", "bool"}},
	"returns": {{"cpuprofile", "", "profile"}, {"val", "v", "commodity"}, {"account", "", "regex"}, {"commodity", "", "regex"}},
	"weights": {{"universe", "", "universe"}, {"val", "v", "commodity"}, {"account", "", "regex"}, {"commodity", "", "regex"}, {"sort", "a", "bool"},
		{"csv", "", "bool"}, {"map", "m", "mapping"}, {"digits", "", "digits"}, {"thousands", "k", "bool"}, {"color", "", "bool"}},
	"check":       {{"no-check", "", "bool"}},
	"check-write": {{"no-check", "", "bool"}},
	"print":       {},
	"format":      {},
	"transcode":   {{"val", "v", "commodity"}},
	"infer":       {{"account", "a", "account"}, {"inplace", "i", "bool"}},
}

var c14CmdWords = map[string][]string{
	"balance": {"balance"}, "returns": {"portfolio", "returns"}, "weights": {"portfolio", "weights"}, "check": {"check"}, "check-write": {"check", "--write"},
	"print": {"print"}, "format": {"format"}, "transcode": {"transcode"}, "infer": {"infer"},
}

func c14HasMultiperiod(cmd string) bool {
	return cmd == "balance" || cmd == "returns" || cmd == "weights"
}

var c14MapHeadRe = regexp.MustCompile(`^(-?\d+)(?::(-?\d+))?(,|$)`)

var c14HostileRegex = []string{"(", "[", "*", "\\", "(?P<x", "a{2,1}", "a{1001}", "(?<!x)", "\\1", "[z-a]", "(?i", "a**", strings.Repeat("(", 2000)}
var c14OddRegex = []string{"", ".", ".*", "(?i)assets", "\\pZ", "[[:alpha:]]+", "^$", "(((((((((a*)*)*)*)*)*)*)*)*)*", "\\x{10FFFF}", "Assets|Expenses", strings.Repeat("(a|b)", 150)}
var c14HostileDates = []string{"2020-13-45", "2020-02-30", "20200101", "", "yesterday", "10000-01-01", "-2020-01-01", "２０２０-０１-０１", "2020-01-01T00:00:00Z", "2020-1-1", " 2020-01-01"}
var c14HostileInts = []string{"x", "", "1.5", "１", "9223372036854775808", "0x", "--1", "1e3", " 1"}

// value draws the value of one flag; ok=false means "leave the flag out".
func (d *c14Draw) value(cmd string, f c14Flag, hostile bool) (vals []string, isHostile bool) {
	t := d.t
	lbl := f.name
	switch f.kind {
	case "bool":
		if hostile {
			return []string{c14Pick(t, lbl+"HostileBool", "=maybe", "=", "=2", "=TRUE ", "=yes")}, true
		}
		return []string{c14Pick(t, lbl+"Bool", "", "", "=true", "=false", "=1", "=0", "=T")}, false
	case "regex":
		if hostile {
			return []string{rapid.SampledFrom(c14HostileRegex).Draw(t, lbl+"HostileRx")}, true
		}
		switch rapid.IntRange(0, 3).Draw(t, lbl+"RxKind") {
		case 0:
			return []string{rapid.SampledFrom(c14OddRegex).Draw(t, lbl+"OddRx")}, false
		case 1:
			return []string{rapid.SampledFrom(d.coms).Draw(t, lbl+"RxCom")}, false
		default:
			a := rapid.SampledFrom(d.accs).Draw(t, lbl+"RxAcc")
			segs := strings.Split(a, ":")
			return []string{c14Pick(t, lbl+"RxForm", regexp.QuoteMeta(a), "^"+regexp.QuoteMeta(segs[0]), regexp.QuoteMeta(segs[len(segs)-1])+"$", regexp.QuoteMeta(segs[0])+":.*")}, false
		}
	case "commodity":
		if hostile {
			return []string{c14Pick(t, lbl+"HostileCom", "", "C H F", "!", "CHF,USD", strings.Repeat("A", 10000), "\"CHF\"", "-", "--", "CHF\n", "1.5", ":")}, true
		}
		switch rapid.IntRange(0, 5).Draw(t, lbl+"ComKind") {
		case 0:
			return []string{c14Pick(t, lbl+"UnknownCom", "ZZZ", "Unknown9", "١٢", "１２", "Ä", "chf", "X")}, false
		default:
			return []string{rapid.SampledFrom(d.coms).Draw(t, lbl+"Com")}, false
		}
	case "account":
		if hostile {
			return []string{c14Pick(t, lbl+"HostileAcc", "", "foo", "Assets:", ":", "Assets::X", "Assets:٣ ٤", strings.Repeat("A", 10000), "Foo:Bar", "Expenses:TBD ")}, true
		}
		return []string{c14Pick(t, lbl+"Acc", "Expenses:TBD", "Expenses:TBD", rapid.SampledFrom(d.accs).Draw(t, lbl+"AccFromJournal"), "Assets:NeverSeen", "Assets:٣")}, false
	case "digits":
		if hostile {
			v := c14Pick(t, lbl+"HostileDigits", "abc", "", "2147483648", "-2147483649", "1e3", "1.0", "1000", "-1000", "999", "2147483647", "-2147483648", "100000000", "-5000000")
			if n, err := strconv.ParseInt(v, 10, 32); err == nil && (n > 1000 || n < -1000) && c14ExcludeHugeDigits {
				c14Excluded("huge-digits")
				if n > 0 {
					v = "1000"
				} else {
					v = "-1000"
				}
			}
			return []string{v}, true
		}
		return []string{strconv.Itoa(rapid.IntRange(-3, 12).Draw(t, lbl+"Digits"))}, false
	case "int":
		if hostile {
			if rapid.Bool().Draw(t, lbl+"HostileIntParse") {
				return []string{rapid.SampledFrom(c14HostileInts).Draw(t, lbl+"HostileInt")}, true
			}
			return []string{c14Pick(t, lbl+"ExtremeInt", "-1", "-100", "-9223372036854775808", "9223372036854775807", "2147483648", "4294967296", "1000000")}, true
		}
		return []string{strconv.Itoa(c14Pick(t, lbl+"Int", 0, 1, 2, 3, 5, 12, 100))}, false
	case "mapping":
		n := 1
		if c14Chance(t, lbl+"Multi", 4) {
			n = rapid.IntRange(2, 3).Draw(t, lbl+"N")
		}
		any := false
		for i := 0; i < n; i++ {
			if hostile && (i == 0 || rapid.Bool().Draw(t, lbl+"HostileThis")) {
				any = true
				v := c14Pick(t, lbl+"HostileMap", "-1,Assets", "1:-1,.", "-5:-5,", "0:-1", "-1", "-1,", "2:-3,Expenses", "1", ",", "", "x,y", "1:2:3,x", "1,(", "99999999999999999999,x", "1:99999999999999999999,x",
					" 1,x", "1 ,x", "1,", "1000000,.", "1:1000000,.", "0:0,", "1,,", "1;2,x", "9223372036854775807:9223372036854775807,.")
				if m := c14MapHeadRe.FindStringSubmatch(v); m != nil && (strings.HasPrefix(m[1], "-") || strings.HasPrefix(m[2], "-")) && c14ExcludeMappingNegative {
					c14Excluded("mapping-negative")
					v = strings.ReplaceAll(v, "-", "")
				}
				vals = append(vals, v)
				continue
			}
			level := c14Pick(t, lbl+"Level", 0, 1, 1, 2, 3, 10)
			rx := c14Pick(t, lbl+"MapRx", "", ".", "Assets", "Expenses", "^Income", regexp.QuoteMeta(rapid.SampledFrom(d.accs).Draw(t, lbl+"MapAcc")))
			v := strconv.Itoa(level)
			if rapid.Bool().Draw(t, lbl+"HasSuffix") {
				v += ":" + strconv.Itoa(c14Pick(t, lbl+"Suffix", 0, 1, 1, 2, 5))
			}
			if rx != "" || rapid.Bool().Draw(t, lbl+"Comma") {
				v += "," + rx
			}
			vals = append(vals, v)
		}
		return vals, any
	case "profile":
		if hostile {
			return []string{c14Pick(t, lbl+"HostileFile", "nodir/prof.out", ".", "/proc/version/x", "")}, true
		}
		return []string{"prof.out"}, false
	case "universe":
		return d.universe(hostile)
	}
	panic("unknown flag kind " + f.kind)
}

func (d *c14Draw) universe(hostile bool) ([]string, bool) {
	t := d.t
	if hostile {
		switch rapid.IntRange(0, 6).Draw(t, "uniHostile") {
		case 0:
			return []string{"no-such-universe.yaml"}, true
		case 1:
			return []string{"."}, true
		case 2:
			d.c.Files["universe.yaml"] = rapid.SliceOfN(rapid.Byte(), 0, 60).Draw(t, "uniBytes")
		case 3:
			d.c.Files["universe.yaml"] = []byte(c14Pick(t, "uniBad", "- a\n- b\n", "A: B\n", "A:\n  - CHF\nB:\n  - CHF\n", "A:\n  - \"C H F\"\n", "A: [", "A:\n  - [x]\n", "? [a]\n: b\n", "&a [*a]\n", "A:\n  - 1\n  - 2.5\n  - null\n", strings.Repeat("A:\n", 2000)))
		case 4:
			return []string{d.c.Main}, true
		case 5:
			return []string{""}, true
		case 6:
			// billion-laughs style aliases
			d.c.Files["universe.yaml"] = []byte("a: &a [x,x,x,x,x,x,x,x,x]\nb: &b [*a,*a,*a,*a,*a,*a,*a,*a,*a]\nc: &c [*b,*b,*b,*b,*b,*b,*b,*b,*b]\nd: &d [*c,*c,*c,*c,*c,*c,*c,*c,*c]\ne: &e [*d,*d,*d,*d,*d,*d,*d,*d,*d]\nf: &f [*e,*e,*e,*e,*e,*e,*e,*e,*e]\n")
		}
		return []string{"universe.yaml"}, true
	}
	var b strings.Builder
	classes := []string{"Cash", "Stocks:US", "Stocks:World", "Other"}
	for i, com := range d.coms {
		if i >= len(classes) || !rapid.Bool().Draw(t, "uniUse") {
			continue
		}
		fmt.Fprintf(&b, "%s:\n  - %s\n", classes[i], strconv.Quote(com))
	}
	d.c.Files["universe.yaml"] = []byte(b.String())
	return []string{"universe.yaml"}, false
}

// window draws --from / --to / --last / interval flags, keeping legitimately
// produced tables below ~20k columns. use/hostile say which of from, to,
// last, interval are present and which carry a hostile value.
func (d *c14Draw) window(cmd string, use, hostile map[string]bool) (args []string) {
	t := d.t
	note := func(name string, h bool) {
		s := "flag:" + cmd + ":--" + name
		if h {
			s += ":hostile"
			d.fault = true
		}
		d.tag(s)
	}
	year := func(lbl string) int { return c14Pick(t, lbl, 2018, 2019, 2020, 2021, 2022, 1990, 2040) }
	fromY, toY := 0, 0
	fromOK, toOK := false, false
	mk := func(name string) (string, bool, int, bool) {
		if hostile[name] {
			if rapid.Bool().Draw(t, name+"Unparseable") {
				return rapid.SampledFrom(c14HostileDates).Draw(t, name+"HostileDate"), true, 0, false
			}
			v := c14Pick(t, name+"ExtremeDate", "0001-01-01", "0001-01-02", "9999-12-31", "1000-01-01", "5000-06-15")
			if v == "0001-01-01" && c14ExcludeZeroTime {
				c14Excluded("zero-time-partition")
				v = "0001-01-02"
			}
			return v, true, 0, false
		}
		y := year(name + "Year")
		m := rapid.IntRange(1, 12).Draw(t, name+"Month")
		dd := rapid.IntRange(1, ref.DaysIn(y, m)).Draw(t, name+"Day")
		return fmt.Sprintf("%04d-%02d-%02d", y, m, dd), false, y, true
	}
	if use["from"] {
		v, h, y, ok := mk("from")
		args = append(args, "--from", v)
		fromY, fromOK = y, ok
		note("from", h)
	}
	if use["to"] {
		v, h, y, ok := mk("to")
		args = append(args, "--to="+v)
		toY, toOK = y, ok
		note("to", h)
	}
	if fromOK && toOK && fromY > toY {
		d.tag("window:inverted")
	}
	if use["last"] {
		vals, h := d.value(cmd, c14Flag{"last", "", "int"}, hostile["last"])
		args = append(args, "--last="+vals[0])
		note("last", h)
	}
	if use["interval"] {
		// fine-grained intervals only when the window is bounded
		explicit := fromOK && toOK // span ≤ 50 years by construction of year()
		allowed := []string{"once", "years"}
		if explicit || d.bound {
			allowed = append(allowed, "months", "quarters", "weeks")
		}
		if explicit || (d.bound && d.c.Content == "valid") {
			allowed = append(allowed, "days")
		}
		iv := rapid.SampledFrom(allowed).Draw(t, "interval")
		two := hostile["interval"] && rapid.Bool().Draw(t, "twoIntervals")
		vals, h := d.value(cmd, c14Flag{iv, "", "bool"}, hostile["interval"] && !two)
		args = append(args, "--"+iv+vals[0])
		note(iv, h)
		if two {
			iv2 := rapid.SampledFrom(allowed).Draw(t, "interval2")
			args = append(args, "--"+iv2)
			note(iv2, true)
		}
	}
	return args
}

// flags draws the flag part of the command line. In hostile mode exactly one
// of the used flags is certain to carry a hostile value (each other one with
// probability 1/8), so that the command gets past flag parsing of the others.
func (d *c14Draw) flags(cmd, mode string) (args []string) {
	t := d.t
	if mode == "default" {
		return nil
	}
	var specs []c14Flag
	if c14HasMultiperiod(cmd) {
		specs = append(specs, c14Flag{"from", "", "window"}, c14Flag{"to", "", "window"}, c14Flag{"last", "", "window"}, c14Flag{"interval", "", "window"})
	}
	specs = append(specs, c14FlagTable[cmd]...)
	use, hostile := map[string]bool{}, map[string]bool{}
	var used []string
	for _, f := range specs {
		if c14Chance(t, "use-"+f.name, 4) {
			use[f.name] = true
			used = append(used, f.name)
		}
	}
	if len(used) == 0 && len(specs) > 0 {
		f := specs[rapid.IntRange(0, len(specs)-1).Draw(t, "useOne")]
		use[f.name] = true
		used = append(used, f.name)
	}
	unknown := mode == "hostile" && c14Chance(t, "unknownFlag", 10)
	if mode == "hostile" && len(used) > 0 && !unknown {
		hostile[used[rapid.IntRange(0, len(used)-1).Draw(t, "hostileOne")]] = true
		for _, n := range used {
			if c14Chance(t, "alsoHostile-"+n, 8) {
				hostile[n] = true
			}
		}
	}
	if c14HasMultiperiod(cmd) {
		args = append(args, d.window(cmd, use, hostile)...)
	}
	for _, f := range c14FlagTable[cmd] {
		if !use[f.name] {
			continue
		}
		vals, h := d.value(cmd, f, hostile[f.name])
		lbl := "flag:" + cmd + ":--" + f.name
		if h {
			lbl += ":hostile"
			d.fault = true
		}
		d.tag(lbl)
		for _, v := range vals {
			useShort := f.short != "" && rapid.Bool().Draw(t, "short-"+f.name)
			switch {
			case f.kind == "bool" && useShort && v == "":
				args = append(args, "-"+f.short)
			case f.kind == "bool":
				args = append(args, "--"+f.name+v)
			case useShort && rapid.Bool().Draw(t, "attached-"+f.name) && v != "":
				args = append(args, "-"+f.short+v)
			case useShort:
				args = append(args, "-"+f.short, v)
			case rapid.Bool().Draw(t, "eq-"+f.name):
				args = append(args, "--"+f.name+"="+v)
			default:
				args = append(args, "--"+f.name, v)
			}
		}
	}
	if unknown {
		args = append(args, c14Pick(t, "bogus", "--bogus", "-Z", "--from", "--digits", "-m", "---", "--val=", "-", "--write=no"))
		d.tag("flag:" + cmd + ":unknown")
		d.fault = true
	}
	return args
}

func drawC14(t *rapid.T) C14Case {
	c := C14Case{Files: map[string][]byte{}, Main: "main.knut"}
	d := &c14Draw{t: t, c: &c}
	c.Cmd = c14Pick(t, "cmd", "check", "check-write", "balance", "balance", "balance", "print", "format", "infer", "transcode", "returns", "weights")
	c.Flags = c14Pick(t, "flagMode", "default", "valid", "valid", "hostile", "hostile")
	c.Procs = c14Pick(t, "procs", "", "", "", "1", "2", "3")
	if c.Flags == "hostile" {
		// hostile values that survive flag parsing only matter when the journal loads
		c.Content = c14Pick(t, "contentForHostileFlags", "valid", "valid", "valid", "valid", "graph", "odd", "empty", "syntax", "mutated")
	} else {
		c.Content = c14Pick(t, "content", "bytes", "soup", "empty", "odd", "odd", "valid", "valid", "syntax", "mutated", "mutated", "graph", "graph", "graph")
	}
	if c.Content == "graph" {
		d.graph()
	} else {
		c.Files[c.Main] = d.content(c.Content)
	}
	args := append([]string{}, c14CmdWords[c.Cmd]...)
	flags := d.flags(c.Cmd, c.Flags)

	// command-specific required flags and positional arguments
	positional := []string{c.Main}
	c.Root = c.Main
	switch c.Cmd {
	case "transcode":
		// an empty -v value is the same as no -v at all
		hasVal, emptyVal := false, false
		for i, a := range flags {
			if strings.HasPrefix(a, "-v") || strings.HasPrefix(a, "--val") {
				hasVal = true
				emptyVal = a == "--val=" || ((a == "-v" || a == "--val") && (i+1 >= len(flags) || flags[i+1] == ""))
			}
		}
		bare := !hasVal && c14Chance(t, "transcodeBare", 4)
		switch {
		case hasVal && !emptyVal:
		case (bare || emptyVal) && c14ExcludeTranscodeNoValuation:
			c14Excluded("transcode-no-valuation")
			fallthrough
		case !bare && !emptyVal:
			flags = append(flags, "-v", rapid.SampledFrom(d.coms).Draw(t, "transcodeVal"))
		default:
			d.tag("transcode:no-valuation")
		}
	case "infer":
		// training file = the main journal (and its include graph); target = a second file or the same file
		target := "target.knut"
		switch rapid.IntRange(0, 4).Draw(t, "inferTarget") {
		case 0:
			target = c.Main
		case 1:
			c.Files[target] = []byte(gen.Mutate(t, "2020-05-01 \"Lunch ACME\"\nAssets:Bank Expenses:TBD 12 CHF\n\n"))
		case 2:
			c.Files[target] = []byte(rapid.SampledFrom(c14EmptyContents).Draw(t, "inferEmpty"))
		default:
			var b strings.Builder
			n := rapid.IntRange(1, 4).Draw(t, "inferN")
			for i := 0; i < n; i++ {
				fmt.Fprintf(&b, "2020-05-%02d \"%s\"\n%s %s %d CHF\n\n", i+1, c14Pick(t, "inferDesc", "Lunch ACME", "rent", "salary", ""),
					c14Pick(t, "inferCr", "Assets:Bank", "Expenses:TBD"), c14Pick(t, "inferDr", "Expenses:TBD", "Expenses:TBD", "Assets:Bank"), i+1)
			}
			c.Files[target] = []byte(b.String())
		}
		positional = []string{target}
		switch {
		case c.Flags == "hostile" && c14Chance(t, "inferNoTraining", 5):
			d.tag("infer:no-training-file")
			d.fault = true
			c.Root = ""
		case c.Flags == "hostile" && c14Chance(t, "inferBadTraining", 5):
			flags = append(flags, "-t", c14Pick(t, "badTraining", "no-such-training.knut", ".", ""))
			d.tag("infer:bad-training-file")
			d.fault = true
			c.Root = ""
		default:
			flags = append(flags, c14Pick(t, "tForm", "-t", "--training-file"), c.Main)
		}
		if c.BadInclude == "semantic-leaf" {
			// infer works on the syntax level only: an invalid account type is not an error there
			c.BadInclude = ""
			d.tag("fault:semantic-leaf-unclaimed")
		}
	case "format":
		// format does not follow includes; it takes any number of files
		c.Root = ""
		if c.BadInclude != "" {
			d.tag("fault:" + c.BadInclude + "-unclaimed")
			c.BadInclude = ""
		}
		if c14Chance(t, "formatMany", 4) {
			for _, n := range sortedKeys(c.Files) {
				if n != c.Main && strings.HasSuffix(n, ".knut") && len(positional) < 4 {
					positional = append(positional, n)
				}
			}
		}
	}
	if c.Flags == "hostile" && c14Chance(t, "hostileArg", 5) {
		d.fault = true
		c.Root = ""
		kind := c14Pick(t, "argFault", "missing", "nonexistent", "directory", "two", "empty-string", "dangling")
		d.tag("arg:" + kind)
		switch kind {
		case "missing":
			positional = nil
		case "nonexistent":
			positional = []string{"no-such-file.knut"}
		case "directory":
			c.Dirs = append(c.Dirs, "somedir")
			positional = []string{c14Pick(t, "dirArg", ".", "somedir", "somedir/")}
		case "two":
			positional = append(positional, c.Main)
		case "empty-string":
			positional = []string{""}
		case "dangling":
			if c.Symlinks == nil {
				c.Symlinks = map[string]string{}
			}
			c.Symlinks["dangling-arg.knut"] = "nowhere.knut"
			positional = []string{"dangling-arg.knut"}
		}
	}
	if rapid.Bool().Draw(t, "flagsFirst") {
		args = append(append(args, flags...), positional...)
	} else {
		args = append(append(args, positional...), flags...)
	}
	c.Args = args
	if d.fault && c.Flags == "hostile" {
		d.tag("hostile-value-drawn")
	}
	c14Sanitise(&c)
	sort.Strings(c.Tags)
	return c
}

var c14Year0Re = regexp.MustCompile(`(^|[^0-9])0000-`)

var c14AccrueRe = regexp.MustCompile(`@accrue([ \t]+\S+[ \t]+)(\d{4}-\d{2}-\d{2})([ \t]+)(\d{4}-\d{2}-\d{2})`)

// c14Sanitise removes accidental instances of the confirmed defects (produced
// by byte-level mutation, token soup or shrinking) while their exclusion flag
// is on, so that the deliberately generated classes are the only way in.
func c14Sanitise(c *C14Case) {
	if c14ExcludeAccrualEmptyWindow {
		for n, b := range c.Files {
			s := string(b)
			changed := false
			s = c14AccrueRe.ReplaceAllStringFunc(s, func(m string) string {
				g := c14AccrueRe.FindStringSubmatch(m)
				if g[4] < g[2] {
					changed = true
					return "@accrue" + g[1] + g[4] + g[3] + g[2]
				}
				return m
			})
			if changed {
				c14Excluded("accrual-empty-window")
				c.Files[n] = []byte(s)
			}
		}
	}
	if c14ExcludeZeroTime {
		for n, b := range c.Files {
			if strings.Contains(string(b), "0001-01-01") {
				c14Excluded("zero-time-partition")
				c.Files[n] = []byte(strings.ReplaceAll(string(b), "0001-01-01", "0001-01-02"))
			}
		}
		for i, a := range c.Args {
			if strings.Contains(a, "0001-01-01") {
				c14Excluded("zero-time-partition")
				c.Args[i] = strings.ReplaceAll(a, "0001-01-01", "0001-01-02")
			}
		}
		// dates of the year 0000 precede the zero time and end in the same panic
		for n, b := range c.Files {
			if c14Year0Re.Match(b) {
				c14Excluded("zero-time-partition")
				c.Files[n] = c14Year0Re.ReplaceAll(b, []byte("${1}0002-"))
			}
		}
	}
	if c14ExcludeIncludeCycle {
		roots := []string{c.Main}
		for _, a := range c.Args {
			if _, ok := c.Files[a]; ok {
				roots = append(roots, a)
			}
		}
		for _, r := range roots {
			if c14HasCycle(*c, r) {
				c14Excluded("include-cycle")
				for n, b := range c.Files {
					lines := strings.Split(string(b), "\n")
					for i, l := range lines {
						if c14IncludeRe.MatchString(l) {
							lines[i] = "#" + l
						}
					}
					c.Files[n] = []byte(strings.Join(lines, "\n"))
				}
				c.BadInclude = ""
				break
			}
		}
	}
}

func TestC14(t *testing.T) {
	runProp(t, "C14", "clean-failure", drawC14, checkC14)
}
