//go:build !no_c05

package props

import (
	"fmt"
	"sort"
	"strings"
	"testing"

	"pgregory.net/rapid"

	"verifharness/gen"
	"verifharness/knutio"
	"verifharness/ref"
)

// C05 — directive order and file layout do not matter.

type C05Case struct {
	Original   string            `json:"original"` // single file, generation order
	Variant    map[string]string `json:"variant"`  // permuted and/or distributed over an include tree
	Main       string            `json:"main"`
	FlagSets   [][]string        `json:"flag_sets"`
	Sched      int               `json:"sched"`
	Procs      string            `json:"procs"`
	Moved      int               `json:"moved"`
	Depth      int               `json:"depth"`
	Damages    []string          `json:"damages,omitempty"`
	Unshuffled bool              `json:"unshuffled,omitempty"`
}

func init() { Register("C05", "permute-split", checkC05) }

// canonicalPrint turns `knut print` output into the sorted list of
// (date, kind, text) and checks that the output itself is in (date, kind) order.
func canonicalPrint(out string) ([]string, error) {
	ds, err := knutio.ParsePrinted(out)
	if err != nil {
		return nil, err
	}
	var keys []string
	prev := ""
	for _, d := range ds {
		k := fmt.Sprintf("%s/%d", d.Date, ref.KindRank(d.Kind))
		if k < prev {
			return nil, fmt.Errorf("printed journal is not in (date, kind) order: %s after %s", k, prev)
		}
		prev = k
		keys = append(keys, k+"/"+d.Render())
	}
	sort.Strings(keys)
	return keys, nil
}

func checkC05(c C05Case) (o Outcome) {
	dirA, cleanA := knutio.Materialise(map[string]string{"main.knut": c.Original})
	defer cleanA()
	dirB, cleanB := knutio.Materialise(c.Variant)
	defer cleanB()
	envB := []string{fmt.Sprintf("KNUT_VERIF_SCHED=%d", c.Sched), "GOMAXPROCS=" + c.Procs}
	o.Labels = []string{fmt.Sprintf("files:%d", min(len(c.Variant), 4)), fmt.Sprintf("depth:%d", c.Depth)}
	for _, d := range c.Damages {
		o.Labels = append(o.Labels, "damage:"+d)
	}
	o.NonTrivial = c.Moved >= 2 || (len(c.Variant) >= 3 && c.Depth >= 2)
	cmds := [][]string{{"check"}, {"print"}}
	for _, fs := range c.FlagSets {
		cmds = append(cmds, append([]string{"balance"}, fs...))
	}
	for _, cmd := range cmds {
		ra := knutio.Run(knutio.Opts{Dir: dirA}, append(append([]string{}, cmd...), "main.knut")...)
		rb := knutio.Run(knutio.Opts{Dir: dirB, Env: envB}, append(append([]string{}, cmd...), c.Main)...)
		o.Evals += 2
		for _, r := range []knutio.Result{ra, rb} {
			if r.TimedOut || r.Signaled || r.Panicked() {
				o.Violation = V("crash", "knut %v: %s", cmd, r.Brief())
				return o
			}
		}
		if (ra.Exit == 0) != (rb.Exit == 0) {
			o.Violation = V("verdict-differs", "knut %v: original exits %d, variant exits %d\n--stderr original--\n%s\n--stderr variant--\n%s\n--original--\n%s\n--variant--\n%s",
				cmd, ra.Exit, rb.Exit, clip(ra.Stderr, 500), clip(rb.Stderr, 500), clip(c.Original, 2000), showFiles(c.Variant)).With("cmd", cmd[0])
			return o
		}
		if ra.Exit != 0 {
			o.Labels = append(o.Labels, "rejected:"+cmd[0])
			continue
		}
		switch cmd[0] {
		case "balance":
			if ra.Stdout != rb.Stdout {
				o.Violation = V("balance-differs", "knut %v differs between original and variant\n%s\n--original--\n%s\n--variant--\n%s", cmd, diffBrief(ra.Stdout, rb.Stdout), clip(c.Original, 2000), showFiles(c.Variant)).With("cmd", "balance")
				return o
			}
		case "print":
			ka, err := canonicalPrint(ra.Stdout)
			if err != nil {
				o.Violation = V("print-unreadable", "original: %v\n%s", err, clip(ra.Stdout, 1500))
				return o
			}
			kb, err := canonicalPrint(rb.Stdout)
			if err != nil {
				o.Violation = V("print-unreadable", "variant: %v\n%s", err, clip(rb.Stdout, 1500))
				return o
			}
			if strings.Join(ka, "\x00") != strings.Join(kb, "\x00") {
				o.Violation = V("print-differs", "printed journals differ beyond the order inside (date, kind) groups\n%s\n--original--\n%s\n--variant--\n%s",
					diffBrief(strings.Join(ka, "\n"), strings.Join(kb, "\n")), clip(c.Original, 2000), showFiles(c.Variant)).With("cmd", "print")
				return o
			}
		}
	}
	return o
}

func showFiles(files map[string]string) string {
	var sb strings.Builder
	for _, n := range sortedKeys(files) {
		fmt.Fprintf(&sb, "== %s ==\n%s", n, files[n])
	}
	return clip(sb.String(), 3000)
}

func drawC05(t *rapid.T) C05Case {
	cfg := gen.HistCfg{
		MaxActions: rapid.SampledFrom([]int{6, 12, 25}).Draw(t, "maxActions"),
		Accruals:   rapid.IntRange(0, 1).Draw(t, "accruals") == 0,
		Assertions: true, Closes: true, Perf: true,
		Prices:    rapid.SampledFrom([]int{0, 1, 1}).Draw(t, "prices"),
		MaxDec:    rapid.SampledFrom([]int{2, 4, 8}).Draw(t, "maxDec"),
		Unicode:   rapid.IntRange(0, 5).Draw(t, "unicode") == 0,
		WideDates: true,
	}
	gen.MaybeLarge(t, &cfg, 4)
	j := gen.GenJournal(t, cfg)
	wide := rapid.IntRange(0, 7).Draw(t, "wide") == 0
	if wide {
		j = gen.GenWideJournal(t)
		cfg.Prices = 0
	}
	var c C05Case
	if rapid.IntRange(0, 3).Draw(t, "damaged") == 0 {
		c.Damages = gen.Damage(t, &j, rapid.IntRange(1, 2).Draw(t, "nDamage"))
	}
	c.Original = ref.RenderAll(j.Directives)
	variant := j.Directives
	if rapid.IntRange(0, 4).Draw(t, "permute") != 0 {
		variant = gen.Shuffle(t, j.Directives)
		for i := range variant {
			if i < len(j.Directives) && (variant[i].Date != j.Directives[i].Date || variant[i].Kind != j.Directives[i].Kind) {
				c.Moved++
			}
		}
	} else {
		c.Unshuffled = true
	}
	tree := gen.SplitIntoTree(t, variant, 7)
	if wide {
		tree = gen.SplitIntoTreeMin(t, variant, 4, 8)
	}
	if !wide && rapid.IntRange(0, 11).Draw(t, "deepChain") == 0 {
		// an include chain deeper than any tree above
		tree = gen.DeepChainTree(t, variant, rapid.IntRange(17, 40).Draw(t, "chainDepth"))
	}
	c.Variant, c.Main, c.Depth = tree.Files, tree.Main, tree.Depth
	nfs := rapid.IntRange(1, 3).Draw(t, "nFlagSets")
	for i := 0; i < nfs; i++ {
		f := gen.DrawBalFlags(t, j, gen.FlagOpts{Mappings: true, Hide: true, Remap: true, Filters: true, Valuation: cfg.Prices == 1})
		c.FlagSets = append(c.FlagSets, f.Args())
	}
	c.Sched = rapid.IntRange(0, 1000).Draw(t, "sched")
	c.Procs = rapid.SampledFrom([]string{"1", "2", "16"}).Draw(t, "procs")
	return c
}

func TestC05(t *testing.T) {
	runProp(t, "C05", "permute-split", drawC05, checkC05)
}
