//go:build !no_c13a

package props

import (
	"fmt"
	"math/big"
	"regexp"
	"sort"
	"strings"
	"testing"
	"unicode/utf8"

	"pgregory.net/rapid"

	"verifharness/gen"
	"verifharness/knutio"
	"verifharness/ref"
	"verifharness/stats"
)

// C13 (part A) — importers turn every statement row into a valid, faithful
// journal entry: ch.cumulus, ch.postfinance, ch.supercard, ch.swisscard,
// ch.swisscard2, ch.viac.
//
// The generator draws an abstract statement (rows in chronological order),
// lays it out in the importer's file format and records, per booking row, the
// effect the row must have on the import account under the importer's
// documented sign convention (golden file + column names). The check runs the
// real binary and compares.

// Known genuine defects (DESIGN §7 rows 17 and 18). While a flag is true the
// generator keeps the class out of the statements (or, for the debug line,
// which every accepted postfinance statement triggers, tells the oracle the
// one exact line it may skip) and counts the exclusion; after the fix lands in
// /repo the flag is set to false and the class is generated again.
var (
	// c13aExcludePostfinanceDebug: ch.postfinance prints `fmt.Println(len(rec), rec)`
	// for the record that ends the booking block (e.g. "1 [Disclaimer:]") on stdout.
	c13aExcludePostfinanceDebug = false // fixed in /repo (fix: remove debug output from the postfinance importer)
	// c13aExcludeQuote: a `"` in a free-text field that flows into a transaction
	// description is printed verbatim by the journal printer and ends the quoted
	// string early; the output is no longer a journal.
	c13aExcludeQuote = false // fixed in /repo (fix: a double quote in a transaction description is replaced by a single quote)
)

const c13aAccount = "Assets:Import"

type c13aEffect struct {
	Date ref.Day `json:"d"`
	Com  string  `json:"c"`
	Amt  string  `json:"a"` // signed effect on the import account
}

type c13aPrice struct {
	Date  ref.Day `json:"d"`
	Value string  `json:"v"` // the value exactly as written in the statement
}

type C13ACase struct {
	Importer  string       `json:"importer"`   // cumulus, postfinance, ...
	Args      []string     `json:"args"`       // importer flags (before the file name)
	Stmt      string       `json:"stmt"`       // statement text (UTF-8)
	Latin1    bool         `json:"latin1"`     // written to disk as ISO-8859-1
	Expect    []c13aEffect `json:"expect"`     // one per booking row
	Prices    []c13aPrice  `json:"prices"`     // viac: one per carried value that must be emitted
	PriceCom  string       `json:"price_com"`  // viac: commodity of the prices
	DebugLine string       `json:"debug_line"` // postfinance: the one stdout line the oracle skips while defect 17 is open
	Features  []string     `json:"features"`   // generator classes present in the statement
}

var c13aImporters = map[string]string{
	"cumulus":     "ch.cumulus",
	"postfinance": "ch.postfinance",
	"supercard":   "ch.supercard",
	"swisscard":   "ch.swisscard",
	"swisscard2":  "ch.swisscard2",
	"viac":        "ch.viac",
}

func init() {
	for name := range c13aImporters {
		Register("C13", name, checkC13A)
	}
}

var (
	c13aDebugRe  = regexp.MustCompile(`^\d+ \[.*\]$`)
	c13aHeaderRe = regexp.MustCompile(`^\d{4}-\d{2}-\d{2} "`)
)

func c13aLatin1(s string) (string, bool) {
	var b []byte
	for _, r := range s {
		if r > 0xff {
			return "", false
		}
		b = append(b, byte(r))
	}
	return string(b), true
}

// c13aQuoteDamage reports whether T contains a transaction header with more
// than the two delimiting quotes.
func c13aQuoteDamage(T string) (string, bool) {
	for _, l := range strings.Split(T, "\n") {
		if c13aHeaderRe.MatchString(l) && strings.Count(l, `"`) > 2 {
			return l, true
		}
	}
	return "", false
}

func checkC13A(c C13ACase) (o Outcome) {
	cmdName, ok := c13aImporters[c.Importer]
	if !ok {
		o.Violation = V("bad-case", "unknown importer %q", c.Importer)
		return o
	}
	o.Labels = append(o.Labels, "importer:"+c.Importer)
	feat := map[string]bool{}
	for _, f := range c.Features {
		feat[f] = true
		o.Labels = append(o.Labels, c.Importer+":"+f)
	}
	// non-trivial (rule of DESIGN §5 C13)
	if c.Importer == "viac" {
		o.NonTrivial = len(c.Prices) >= 2 && (feat["zero-value"] || feat["rounding"] || feat["from"])
	} else {
		pos, neg := false, false
		for _, e := range c.Expect {
			switch ref.R(e.Amt).Sign() {
			case 1:
				pos = true
			case -1:
				neg = true
			}
		}
		o.NonTrivial = len(c.Expect) >= 2 && pos && neg && (feat["thousands"] || feat["hostile"] || feat["fx"])
	}
	if o.NonTrivial {
		o.Labels = append(o.Labels, c.Importer+":nontrivial")
	}

	stmt := c.Stmt
	if c.Latin1 {
		s, ok := c13aLatin1(stmt)
		if !ok {
			o.Violation = V("bad-case", "statement is not representable in ISO-8859-1")
			return o
		}
		stmt = s
	}
	file := "stmt.csv"
	if c.Importer == "viac" {
		file = "stmt.json"
	}
	dir, cleanup := knutio.Materialise(map[string]string{file: stmt})
	defer cleanup()
	show := func() string { return fmt.Sprintf("--statement (%s)--\n%s", c.Importer, clip(c.Stmt, 3000)) }

	// (1) the real binary
	args := append(append([]string{"import", cmdName}, c.Args...), file)
	r := knutio.Run(knutio.Opts{Dir: dir}, args...)
	o.Evals++
	if r.TimedOut || r.Signaled || r.Panicked() {
		o.Violation = V("crash", "knut %v: %s\n%s", args, r.Brief(), show()).With("importer", c.Importer)
		return o
	}
	if r.Exit == 0 && r.Stderr != "" {
		// the statement is about the emitted journal (stdout); a warning on stderr is recorded, not judged
		o.Labels = append(o.Labels, "stderr-on-success")
	}
	if r.Exit != 0 {
		o.Violation = V("import-failed", "knut %v on a well-formed statement: exit %d, stderr:\n%s\n%s", args, r.Exit, clip(r.Stderr, 800), show()).With("importer", c.Importer)
		return o
	}
	T := r.Stdout
	if c.DebugLine != "" && strings.HasPrefix(T, c.DebugLine) {
		T = T[len(c.DebugLine):]
	} else if first, _, _ := strings.Cut(T, "\n"); c13aDebugRe.MatchString(first) {
		o.Violation = V("debug-output-on-stdout", "knut %v prints a line that is not part of the journal on stdout: %q\n--stdout--\n%s\n%s", args, first, clip(T, 1500), show()).
			With("importer", c.Importer)
		return o
	}

	// own reader
	ds, perr := knutio.ParsePrinted(T)
	if perr != nil {
		if l, q := c13aQuoteDamage(T); q {
			o.Violation = V("quote-in-description", "a double quote from a free-text field ends the description early: %s\n--stdout--\n%s\n%s", l, clip(T, 1500), show()).With("importer", c.Importer)
			return o
		}
		o.Violation = V("output-unreadable", "the emitted text is not in the journal printer's normal form: %v\n--stdout--\n%s\n%s", perr, clip(T, 1500), show()).With("importer", c.Importer)
		return o
	}

	// (2) opens + T is accepted by knut check, (3) knut print reproduces T
	accounts := map[string]bool{}
	var minDate ref.Day
	for i, d := range ds {
		if i == 0 || d.Date < minDate {
			minDate = d.Date
		}
		for _, b := range d.Bookings {
			accounts[b.Credit], accounts[b.Debit] = true, true
		}
		for _, b := range d.Balances {
			accounts[b.Account] = true
		}
	}
	var opens strings.Builder
	for _, a := range sortedKeys(accounts) {
		fmt.Fprintf(&opens, "%s open %s\n", minDate-1, a)
	}
	if opens.Len() > 0 {
		opens.WriteString("\n")
	}
	jdir, jclean := knutio.Materialise(map[string]string{"j.knut": opens.String() + T})
	defer jclean()
	for _, cmd := range []string{"check", "print"} {
		jr := knutio.Run(knutio.Opts{Dir: jdir}, cmd, "j.knut")
		o.Evals++
		if jr.TimedOut || jr.Signaled || jr.Panicked() {
			o.Violation = V("crash", "knut %s on the imported journal: %s\n--journal--\n%s\n%s", cmd, jr.Brief(), clip(opens.String()+T, 1500), show()).With("importer", c.Importer).With("cmd", cmd)
			return o
		}
		if jr.Exit != 0 {
			kind := "journal-rejected"
			if _, q := c13aQuoteDamage(T); q {
				kind = "quote-in-description"
			}
			o.Violation = V(kind, "knut %s rejects the imported journal (accounts opened): exit %d\n%s\n--journal--\n%s\n%s", cmd, jr.Exit, clip(jr.Stderr, 800), clip(opens.String()+T, 1500), show()).
				With("importer", c.Importer).With("cmd", cmd)
			return o
		}
		if cmd == "print" {
			out := jr.Stdout
			if !strings.HasSuffix(out, T) {
				o.Violation = V("reprint-differs", "knut print of the imported journal does not reproduce it\n--imported--\n%s\n--printed--\n%s\n%s", clip(T, 1500), clip(out, 1500), show()).With("importer", c.Importer)
				return o
			}
			pre, err := knutio.ParsePrinted(out[:len(out)-len(T)])
			got := map[string]bool{}
			for _, d := range pre {
				if d.Kind != ref.KOpen || d.Date != minDate-1 {
					err = fmt.Errorf("unexpected directive before the imported text: %s", d.Render())
				}
				got[d.Account] = true
			}
			if err != nil || fmt.Sprint(sortedKeys(got)) != fmt.Sprint(sortedKeys(accounts)) {
				o.Violation = V("reprint-differs", "knut print: the text before the imported journal is not the block of opens (%v)\n--printed--\n%s\n%s", err, clip(out, 1500), show()).With("importer", c.Importer)
				return o
			}
		}
	}

	// (4) per-row expectation
	if c.Importer == "viac" {
		o.Violation = c13aCheckPrices(c, ds, T, show)
		return o
	}
	want := map[string]int{}
	for _, e := range c.Expect {
		want[fmt.Sprintf("%s %s %s", e.Date, e.Com, ref.DecString(ref.R(e.Amt)))]++
	}
	got := map[string]int{}
	nTrx := 0
	for _, d := range ds {
		if d.Kind != ref.KTrx {
			o.Violation = V("extra-output", "the statement carries no %s directive, the importer emits:\n%s\n%s", d.Kind, d.Render(), show()).With("importer", c.Importer).With("directive", d.Kind)
			return o
		}
		nTrx++
		eff := map[string]*big.Rat{}
		for _, b := range d.Bookings {
			q := ref.R(b.Qty)
			if b.Debit == c13aAccount {
				if eff[b.Com] == nil {
					eff[b.Com] = ref.Zero()
				}
				eff[b.Com] = ref.Add(eff[b.Com], q)
			}
			if b.Credit == c13aAccount {
				if eff[b.Com] == nil {
					eff[b.Com] = ref.Zero()
				}
				eff[b.Com] = ref.Sub(eff[b.Com], q)
			}
		}
		var parts []string
		for _, com := range sortedKeys(eff) {
			parts = append(parts, com+" "+ref.DecString(eff[com]))
		}
		if len(parts) == 0 {
			parts = []string{"(import account untouched)"}
		}
		got[fmt.Sprintf("%s %s", d.Date, strings.Join(parts, " + "))]++
	}
	var missing, extra []string
	for _, k := range sortedKeys(want) {
		if want[k] > got[k] {
			missing = append(missing, fmt.Sprintf("%dx %s", want[k]-got[k], k))
		}
	}
	for _, k := range sortedKeys(got) {
		if got[k] > want[k] {
			extra = append(extra, fmt.Sprintf("%dx %s", got[k]-want[k], k))
		}
	}
	if len(missing) > 0 || len(extra) > 0 || nTrx != len(c.Expect) {
		o.Violation = V("row-mismatch", "%d booking rows, %d transactions; effects on %s expected but not emitted: %v; emitted but not expected: %v\n--stdout--\n%s\n%s",
			len(c.Expect), nTrx, c13aAccount, missing, extra, clip(T, 1500), show()).With("importer", c.Importer)
		return o
	}
	return o
}

// c13aCheckPrices: viac carries no bookings; every non-zero daily value (on or
// after --from) yields one price of the commodity in CHF, equal to the value
// at two decimals (either neighbour is accepted at an exact tie).
func c13aCheckPrices(c C13ACase, ds []ref.Directive, T string, show func() string) *Violation {
	var got []ref.Directive
	for _, d := range ds {
		if d.Kind != ref.KPrice {
			return V("extra-output", "a viac statement carries prices only, the importer emits:\n%s\n%s", d.Render(), show()).With("importer", c.Importer).With("directive", d.Kind)
		}
		got = append(got, d)
	}
	want := append([]c13aPrice{}, c.Prices...)
	sort.SliceStable(want, func(i, j int) bool { return want[i].Date < want[j].Date })
	sort.SliceStable(got, func(i, j int) bool { return got[i].Date < got[j].Date })
	bad := func(msg string) *Violation {
		return V("price-mismatch", "%s\n--stdout--\n%s\n%s", msg, clip(T, 1500), show()).With("importer", c.Importer)
	}
	if len(got) != len(want) {
		return bad(fmt.Sprintf("%d values to carry, %d prices emitted", len(want), len(got)))
	}
	half := ref.R("0.005")
	for i, w := range want {
		g := got[i]
		if g.Date != w.Date || g.Com != c.PriceCom || g.Target != "CHF" {
			return bad(fmt.Sprintf("value %s on %s: emitted %s", w.Value, w.Date, strings.TrimSpace(g.Render())))
		}
		p, ok := ref.ParseDec(g.Price)
		if !ok || ref.Decimals(p) > 2 || ref.Abs(ref.Sub(p, ref.R(w.Value))).Cmp(half) > 0 {
			return bad(fmt.Sprintf("value %s on %s: emitted price %s is not the value at two decimals", w.Value, w.Date, g.Price))
		}
	}
	return nil
}

// ---------------------------------------------------------------------------
// generators

type c13aFeats map[string]bool

func (f c13aFeats) list() []string { return sortedKeys(f) }

// desc notes the classes of a free-text field that is laid out in a column
// the importer copies into the description.
func (f c13aFeats) desc(s string) string {
	if c13aIsHostile(s) {
		f["hostile"] = true
	}
	if s == "" {
		f["empty-text"] = true
	}
	if strings.Contains(s, `"`) {
		f["quote"] = true
	}
	return s
}

var (
	c13aTokens = []string{
		"Migros", "Zürich", "ab", "x", "7", "42", " ", " ", "  ", "\t", "\"", "\"", "'", ";", ",", "@", "#", "*", "%", "\\",
		"//", "-", ".", ":", "/", "(", "é", "ß", "Ø", "\u00a0", "€", "日本", "😀", "Ωμέγα", "\ufffd", "\ufeff", "é", "&", "=", "<", "|", "$", "{}",
	}
	c13aTokensLatin1 = []string{
		"Migros", "Zürich", "ab", "x", "7", "42", " ", " ", "  ", "\t", "\"", "\"", "'", ";", ",", "@", "#", "*", "%", "\\",
		"//", "-", ".", ":", "/", "(", "é", "ß", "Ø", "\u00a0", "ÿ", "×", "&", "=", "<", "|", "$", "{}",
	}
	c13aPlain      = []string{"Coop", "SBB", "Migros Basel", "Tankstelle", "Restaurant Kreuz", "Amazon", "IHRE ZAHLUNG", "Twint", "A", ""}
	c13aDateLikeRe = regexp.MustCompile(`\d\d.\d\d.\d\d\d\d`)
)

func c13aIsHostile(s string) bool {
	if s != strings.TrimSpace(s) {
		return true
	}
	for _, r := range s {
		if !(r >= 'a' && r <= 'z' || r >= 'A' && r <= 'Z' || r >= '0' && r <= '9' || r == ' ') {
			return true
		}
	}
	return strings.Contains(s, "  ")
}

// c13aText draws a free-text field. inDesc: the field flows into a transaction
// description (so defect 18 applies); latin1: restrict to ISO-8859-1.
func c13aText(t *rapid.T, label string, inDesc, latin1 bool, f c13aFeats) string {
	var s string
	switch rapid.IntRange(0, 9).Draw(t, label+"Kind") {
	case 9:
		s = ""
	case 0, 1, 2:
		s = rapid.SampledFrom(c13aPlain).Draw(t, label+"Plain")
	default:
		toks := c13aTokens
		if latin1 {
			toks = c13aTokensLatin1
		}
		s = strings.Join(rapid.SliceOfN(rapid.SampledFrom(toks), 1, 6).Draw(t, label), "")
	}
	if gen.Rare(t, label+"Long", 4) {
		// a notification text of several hundred bytes with multi-byte letters at every alignment
		n := rapid.IntRange(12, 40).Draw(t, label+"LongN")
		s = strings.TrimSpace(s + " " + strings.Repeat(rapid.SampledFrom([]string{"Überweisung ", "Zürich-Örlikon ", "é", "Gebühr für März "}).Draw(t, label+"LongTok"), n))
	}
	if inDesc && strings.Contains(s, `"`) {
		if c13aExcludeQuote {
			stats.Get("C13").Excluded("quote-in-description")
			s = strings.ReplaceAll(s, `"`, "'")
		}
	}
	if !utf8.ValidString(s) {
		panic("generator produced invalid UTF-8")
	}
	return s
}

// c13aField encodes one CSV field: quoted iff it has to be (or always).
func c13aField(s string, sep string, always bool) string {
	if always || strings.ContainsAny(s, "\"\r\n") || strings.Contains(s, sep) {
		return `"` + strings.ReplaceAll(s, `"`, `""`) + `"`
	}
	return s
}

func c13aJoin(sep string, always bool, fields ...string) string {
	out := make([]string, len(fields))
	for i, f := range fields {
		out[i] = c13aField(f, sep, always)
	}
	return strings.Join(out, sep)
}

func c13aDMY(d ref.Day) string {
	y, m, dd := d.Civil()
	return fmt.Sprintf("%02d.%02d.%04d", dd, m, y)
}

// c13aAmount renders cents with two decimals and an optional thousands separator.
func c13aAmount(cents int64, sep string) string {
	ip := fmt.Sprintf("%d", cents/100)
	if sep != "" {
		var b strings.Builder
		for i, ch := range ip {
			if i > 0 && (len(ip)-i)%3 == 0 {
				b.WriteString(sep)
			}
			b.WriteRune(ch)
		}
		ip = b.String()
	}
	return fmt.Sprintf("%s.%02d", ip, cents%100)
}

func c13aSigned(cents int64, neg bool) string {
	s := c13aAmount(cents, "")
	if neg && cents != 0 {
		return "-" + s
	}
	return s
}

type c13aRow struct {
	Gap   int       // days since the previous row
	Post  int       // posting/value date = date + Post
	Cents int64     // magnitude
	Neg   bool      // effect on the import account is negative (a charge / Belastung / Lastschrift)
	FX    bool      // foreign-currency purchase (continuation line, FX columns)
	T     [6]string // free-text fields
	Date  ref.Day
}

func c13aRowGen(nText int, latin1 bool, f c13aFeats) *rapid.Generator[c13aRow] {
	return rapid.Custom(func(t *rapid.T) c13aRow {
		var r c13aRow
		r.Gap = rapid.SampledFrom([]int{0, 0, 1, 1, 2, 3, 9, 31}).Draw(t, "gap")
		r.Post = rapid.SampledFrom([]int{0, 1, 1, 2, 4}).Draw(t, "post")
		switch rapid.IntRange(0, 11).Draw(t, "amountClass") {
		case 11:
			r.Cents = 0
		case 0, 1, 2, 3:
			r.Cents = rapid.Int64Range(1, 99_999).Draw(t, "small")
		case 4, 5:
			r.Cents = 100 * rapid.Int64Range(1, 99_999).Draw(t, "round")
		case 6, 7, 8, 9:
			r.Cents = rapid.Int64Range(100_000, 99_999_999).Draw(t, "thousands")
		default:
			r.Cents = rapid.Int64Range(100_000_000, 99_999_999_999).Draw(t, "millions")
		}
		r.Neg = rapid.IntRange(0, 4).Draw(t, "credit") < 3
		r.FX = rapid.IntRange(0, 4).Draw(t, "fx") == 4
		for i := 0; i < nText; i++ {
			r.T[i] = c13aText(t, fmt.Sprintf("text%d", i), true, latin1, f)
		}
		return r
	})
}

// c13aRows draws the booking rows of a statement in chronological order.
func c13aRows(t *rapid.T, nText int, latin1 bool, f c13aFeats) []c13aRow {
	y := rapid.IntRange(2015, 2024).Draw(t, "year")
	m := rapid.IntRange(1, 10).Draw(t, "month")
	day := ref.FromCivil(y, m, rapid.IntRange(1, 28).Draw(t, "day"))
	maxRows := rapid.SampledFrom([]int{3, 5, 5, 8}).Draw(t, "maxRows")
	minRows := rapid.SampledFrom([]int{0, 2, 2, 3}).Draw(t, "minRows")
	if lo, hi := c13RowBounds(t, maxRows); lo > 1 {
		minRows, maxRows = lo, hi
	}
	rows := rapid.SliceOfN(c13aRowGen(nText, latin1, f), minRows, maxRows).Draw(t, "rows")
	limit := ref.FromCivil(2024, 12, 20)
	for i := range rows {
		day += ref.Day(rows[i].Gap)
		if day > limit {
			day = limit
		}
		rows[i].Date = day
		if rows[i].Cents == 0 {
			f["zero-amount"] = true
		}
	}
	return rows
}

func c13aLayout(t *rapid.T, lines []string, f c13aFeats) string {
	eol := "\n"
	if rapid.IntRange(0, 3).Draw(t, "crlf") == 3 {
		eol = "\r\n"
		f["crlf"] = true
	}
	s := strings.Join(lines, eol)
	if rapid.IntRange(0, 3).Draw(t, "noFinalNewline") != 3 {
		s += eol
	} else {
		f["no-final-newline"] = true
	}
	return s
}

func c13aOrder[T any](t *rapid.T, rows []T, descDefault bool, f c13aFeats) []T {
	desc := descDefault
	if rapid.IntRange(0, 4).Draw(t, "otherOrder") == 4 {
		desc = !desc
	}
	out := append([]T{}, rows...)
	if desc {
		f["newest-first"] = true
		for i, j := 0, len(out)-1; i < j; i, j = i+1, j-1 {
			out[i], out[j] = out[j], out[i]
		}
	} else {
		f["oldest-first"] = true
	}
	return out
}

func c13aEffectOf(r c13aRow, com string) c13aEffect {
	return c13aEffect{Date: r.Date, Com: com, Amt: c13aSigned(r.Cents, r.Neg)}
}

// --- ch.cumulus: comma CSV produced by tabula from the PDF statement.
// Belastung x -> -x CHF, Gutschrift x -> +x CHF; a continuation line with only
// the description filled belongs to the row before it; the payment section,
// carried-forward balance, column headers and totals produce nothing; the
// 4-field "Rundungskorrektur" line is a booking.
func drawC13ACumulus(t *rapid.T) C13ACase {
	f := c13aFeats{}
	c := C13ACase{Importer: "cumulus", Args: []string{"--account", c13aAccount}}
	rows := c13aRows(t, 2, false, f)
	always := rapid.IntRange(0, 3).Draw(t, "quoteAll") == 3
	sep := "'"
	noise := func(label string) string {
		s := c13aText(t, label, false, false, f)
		if c13aDateLikeRe.MatchString(s) {
			s = "Zahlung"
		}
		return s
	}
	var lines []string
	if rapid.IntRange(0, 2).Draw(t, "paymentSection") != 0 {
		f["noise:payment-section"] = true
		lines = append(lines, "Verbucht am,Beschreibung,Gutschrift CHF,Belastung CHF")
		lines = append(lines, c13aJoin(",", always, "", "Saldovortrag letzte Rechnung", "", c13aAmount(rapid.Int64Range(0, 9_999_999).Draw(t, "saldo"), sep)))
		first := ref.FromCivil(2015, 1, 1)
		if len(rows) > 0 {
			first = rows[0].Date
		}
		for i, n := 0, rapid.IntRange(0, 2).Draw(t, "payments"); i < n; i++ {
			txt := "Ihre LSV-Zahlung - Besten Dank"
			if rapid.Bool().Draw(t, "paymentHostile") {
				txt = noise("paymentText")
			}
			lines = append(lines, c13aJoin(",", always, c13aDMY(first+ref.Day(i)), txt, c13aAmount(rapid.Int64Range(1, 9_999_999).Draw(t, "payment"), sep), ""))
		}
	}
	header := "Einkaufs-Datum,Verbucht am,Beschreibung,Gutschrift CHF,Belastung CHF"
	lines = append(lines, header)
	for i, r := range c13aOrder(t, rows, false, f) {
		amt := c13aAmount(r.Cents, sep)
		if strings.Contains(amt, sep) {
			f["thousands"] = true
		}
		gut, bel := "", amt
		if !r.Neg {
			gut, bel = amt, ""
		}
		lines = append(lines, c13aJoin(",", always, c13aDMY(r.Date), c13aDMY(r.Date+ref.Day(r.Post)), f.desc(r.T[0]), gut, bel))
		c.Expect = append(c.Expect, c13aEffectOf(r, "CHF"))
		if r.FX {
			txt := r.T[1]
			if strings.TrimSpace(txt) == "" {
				txt = "EUR 12.00 Kurs 1.0812"
			}
			f["fx"] = true
			// the sample quotes the continuation text and leaves the first field as ""
			lines = append(lines, `"",,`+c13aField(f.desc(txt), ",", true)+`,,`)
		}
		if i%3 == 2 && rapid.IntRange(0, 3).Draw(t, "pageBreak") == 3 {
			f["noise:page-header"] = true
			lines = append(lines, "", header)
		}
	}
	if rapid.IntRange(0, 3).Draw(t, "total") == 3 {
		f["noise:total"] = true
		lines = append(lines, c13aJoin(",", always, "", "", "Total Karte "+noise("totalText"), "", c13aAmount(rapid.Int64Range(0, 99_999_999).Draw(t, "totalAmount"), sep)))
	}
	if rapid.IntRange(0, 2).Draw(t, "rounding") == 2 {
		f["rounding-line"] = true
		d := ref.FromCivil(2015, 1, 1)
		if len(rows) > 0 {
			d = rows[len(rows)-1].Date + ref.Day(rapid.IntRange(0, 14).Draw(t, "roundingGap"))
		}
		r := c13aRow{Date: d, Cents: rapid.Int64Range(1, 4).Draw(t, "roundingCents"), Neg: rapid.Bool().Draw(t, "roundingCharge")}
		gut, bel := "", c13aAmount(r.Cents, sep)
		if !r.Neg {
			gut, bel = bel, ""
		}
		lines = append(lines, "Verbucht am,Beschreibung,Gutschrift CHF,Belastung CHF")
		lines = append(lines, c13aJoin(",", always, c13aDMY(r.Date), "Rundungskorrektur", gut, bel))
		c.Expect = append(c.Expect, c13aEffectOf(r, "CHF"))
	}
	c.Stmt = c13aLayout(t, lines, f)
	c.Features = f.list()
	return c
}

// --- ch.postfinance: BOM, `key;value` header incl. `Währung:`, column header,
// `;` rows with 8 (or 7: no Saldo column) fields, disclaimer.
// Gutschrift x -> +x, Lastschrift -x -> -x, in the header currency (CHF if absent).
func drawC13APostfinance(t *rapid.T) C13ACase {
	f := c13aFeats{}
	c := C13ACase{Importer: "postfinance", Args: []string{"--account", c13aAccount}}
	rows := c13aRows(t, 3, false, f)
	always := rapid.IntRange(0, 4).Draw(t, "quoteAll") == 4
	cur := "CHF"
	var lines []string
	lines = append(lines, `Buchungsart:;="Alle Buchungen"`, `Konto:;="CH4609000000877991229"`)
	switch rapid.IntRange(0, 3).Draw(t, "currencyLine") {
	case 3:
		f["no-currency-line"] = true
	case 2:
		cur = rapid.SampledFrom([]string{"CHF", "EUR", "USD"}).Draw(t, "currency")
		lines = append(lines, "Währung:;"+cur)
	default:
		cur = rapid.SampledFrom([]string{"CHF", "CHF", "EUR", "USD"}).Draw(t, "currency")
		lines = append(lines, `Währung:;="`+cur+`"`)
	}
	if cur != "CHF" {
		f["currency:other"] = true
	}
	saldoCol := rapid.IntRange(0, 3).Draw(t, "saldoColumn") != 3
	head := fmt.Sprintf("Buchungsdatum;Avisierungstext;Gutschrift in %[1]s;Lastschrift in %[1]s;Label;Kategorie;Valuta", cur)
	if saldoCol {
		head += ";Saldo in " + cur
	} else {
		f["seven-fields"] = true
	}
	lines = append(lines, "", head, "")
	trim := rapid.IntRange(0, 2).Draw(t, "trimZeros") == 2
	sep := ""
	if rapid.Bool().Draw(t, "thousandsSep") {
		sep = "'"
	}
	// running balance from zero, in chronological order
	saldo := make([]int64, len(rows))
	var run int64
	for i, r := range rows {
		if r.Neg {
			run -= r.Cents
		} else {
			run += r.Cents
		}
		saldo[i] = run
	}
	type prow struct {
		r     c13aRow
		saldo int64
	}
	var prs []prow
	for i, r := range rows {
		prs = append(prs, prow{r, saldo[i]})
	}
	for _, pr := range c13aOrder(t, prs, true, f) {
		r := pr.r
		amt := c13aAmount(r.Cents, sep)
		if trim {
			amt = strings.TrimSuffix(strings.TrimRight(amt, "0"), ".")
		}
		if strings.Contains(amt, "'") {
			f["thousands"] = true
		}
		gut, last := amt, ""
		if r.Neg {
			gut, last = "", "-"+amt
		}
		fields := []string{c13aDMY(r.Date), f.desc(r.T[0]), gut, last, f.desc(r.T[1]), f.desc(r.T[2]), c13aDMY(r.Date + ref.Day(r.Post))}
		if saldoCol {
			s := ""
			if rapid.IntRange(0, 3).Draw(t, "saldoShown") != 3 {
				s = c13aAmount(c13aAbs64(pr.saldo), sep)
				if pr.saldo < 0 {
					s = "-" + s
				}
			}
			fields = append(fields, s)
		}
		lines = append(lines, c13aJoin(";", always, fields...))
		e := c13aEffectOf(r, cur)
		c.Expect = append(c.Expect, e)
	}
	lines = append(lines, "", "Disclaimer:", "Dies ist kein durch PostFinance AG erstelltes Dokument. PostFinance AG ist nicht verantwortlich für den Inhalt.")
	if c13aExcludePostfinanceDebug {
		stats.Get("C13").Excluded("postfinance-debug-line")
		c.DebugLine = fmt.Sprintln(1, []string{"Disclaimer:"})
	}
	body := c13aLayout(t, lines, f)
	if rapid.IntRange(0, 3).Draw(t, "bom") != 0 {
		body = "\ufeff" + body
		f["bom"] = true
	}
	c.Stmt = body
	c.Features = f.list()
	return c
}

func c13aAbs64(x int64) int64 {
	if x < 0 {
		return -x
	}
	return x
}

// --- ch.supercard: ISO-8859-1, `sep=;`, 13 fields; lines whose Buchungstext is
// "Saldovortrag", 11-field lines and lines without account number are skipped.
// Belastung x -> -x, Gutschrift x -> +x in the currency of the `Währung` column.
func drawC13ASupercard(t *rapid.T) C13ACase {
	f := c13aFeats{}
	c := C13ACase{Importer: "supercard", Args: []string{"--account", c13aAccount}, Latin1: true}
	rows := c13aRows(t, 3, true, f)
	always := rapid.IntRange(0, 4).Draw(t, "quoteAll") == 4
	blank := rapid.SampledFrom([]string{" ", " ", ""}).Draw(t, "blank")
	cur := rapid.SampledFrom([]string{"CHF", "CHF", "CHF", "EUR"}).Draw(t, "accountCurrency")
	if cur != "CHF" {
		f["currency:other"] = true
	}
	konto, karte := "1425 0000 0000", "1111 2222 3333 4444"
	owner := "OWNER"
	if rapid.Bool().Draw(t, "ownerHostile") {
		owner = c13aText(t, "owner", false, true, f)
	}
	enc := func(fields ...string) string {
		out := make([]string, len(fields))
		for i, s := range fields {
			if s == "" {
				out[i] = blank // the export writes a single blank for an empty cell
			} else {
				out[i] = c13aField(s, ";", always)
			}
		}
		return strings.Join(out, ";")
	}
	lines := []string{"sep=;", "Kontonummer;Kartennummer;Konto-/Karteninhaber;Einkaufsdatum;Buchungstext;Branche;Betrag;Originalwährung;Kurs;Währung;Belastung;Gutschrift;Buchung"}
	first := ref.FromCivil(2015, 1, 1)
	if len(rows) > 0 {
		first = rows[0].Date
	}
	if rapid.IntRange(0, 2).Draw(t, "saldovortrag") == 2 {
		f["noise:saldovortrag"] = true
		lines = append(lines, enc(konto, "", owner, c13aDMY(first), "Saldovortrag", "", "", "", "", cur, c13aAmount(rapid.Int64Range(1, 99_999).Draw(t, "saldo"), ""), "", c13aDMY(first)))
	}
	for _, r := range c13aOrder(t, rows, false, f) {
		amt := c13aAmount(r.Cents, "")
		bel, gut := amt, ""
		if !r.Neg {
			bel, gut = "", amt
		}
		betrag, orig, kurs := amt, cur, ""
		if r.FX {
			f["fx"] = true
			orig = rapid.SampledFrom([]string{"USD", "GBP", "EUR"}).Draw(t, "origCurrency")
			betrag = c13aAmount(r.Cents*9/10+1, "")
			kurs = "1.0812"
		}
		lines = append(lines, enc(konto, karte, owner, c13aDMY(r.Date), f.desc(r.T[0]), f.desc(r.T[1]), betrag, orig, kurs, cur, bel, gut, c13aDMY(r.Date+ref.Day(r.Post))))
		c.Expect = append(c.Expect, c13aEffectOf(r, cur))
	}
	if rapid.IntRange(0, 3).Draw(t, "elevenFields") == 3 {
		f["noise:eleven-fields"] = true
		lines = append(lines, enc(konto, karte, owner, c13aDMY(first), "Total", "", c13aAmount(rapid.Int64Range(1, 9_999_999).Draw(t, "total"), ""), cur, "", cur, ""))
	}
	if rapid.IntRange(0, 3).Draw(t, "noAccountLine") == 3 {
		f["noise:no-account-number"] = true
		lines = append(lines, enc("", "", "", "", c13aText(t, "noAccountText", false, true, f), "", "", "", "", cur, c13aAmount(rapid.Int64Range(1, 9_999_999).Draw(t, "total2"), ""), "", ""))
	}
	c.Stmt = c13aLayout(t, lines, f)
	c.Features = f.list()
	return c
}

// --- ch.swisscard (before mid 2023): 11 fields, amount `CHF1'234.50` for
// charges and `-CHF…` for credits; effect on the account = -amount, CHF.
func drawC13ASwisscard(t *rapid.T) C13ACase {
	f := c13aFeats{}
	c := C13ACase{Importer: "swisscard", Args: []string{"--account", c13aAccount}}
	rows := c13aRows(t, 6, false, f)
	always := rapid.IntRange(0, 3).Draw(t, "quoteAll") == 3
	spaced := rapid.Bool().Draw(t, "blankBeforeQuote")
	lines := []string{"Transaction Date, Posting Date, Card Number ,Billing Amount, Description, Merchant City , Merchant State , Merchant Zip , Reference Number , Debit/Credit Flag , SICMCC Code"}
	for _, r := range c13aOrder(t, rows, true, f) {
		amt := "CHF" + c13aAmount(r.Cents, "'")
		flag := "D"
		if !r.Neg {
			flag = "C"
			if r.Cents != 0 {
				amt = "-" + amt
			}
		}
		if strings.Contains(amt, "'") {
			f["thousands"] = true
		}
		ref9 := c13aField(f.desc(r.T[5]), ",", true)
		if spaced {
			ref9 = " " + ref9
		}
		mcc := ""
		if r.FX {
			mcc = "5411"
		}
		line := strings.Join([]string{
			c13aDMY(r.Date), c13aDMY(r.Date + ref.Day(r.Post)),
			c13aField(f.desc(r.T[0]), ",", always), amt,
			c13aField(f.desc(r.T[1]), ",", true), c13aField(f.desc(r.T[2]), ",", true),
			c13aField(f.desc(r.T[3]), ",", always), c13aField(f.desc(r.T[4]), ",", always),
			ref9, flag, mcc}, ",")
		lines = append(lines, line)
		c.Expect = append(c.Expect, c13aEffectOf(r, "CHF"))
	}
	c.Stmt = c13aLayout(t, lines, f)
	c.Features = f.list()
	return c
}

// --- ch.swisscard2 (from mid 2023): 12 quoted fields; effect = -Betrag in the
// currency of the `Währung` column (credits carry a negative Betrag).
func drawC13ASwisscard2(t *rapid.T) C13ACase {
	f := c13aFeats{}
	c := C13ACase{Importer: "swisscard2", Args: []string{"--account", c13aAccount}}
	rows := c13aRows(t, 5, false, f)
	lines := []string{"Transaktionsdatum,Beschreibung,Händler,Kartennummer,Währung,Betrag,Fremdwährung,Betrag in Fremdwährung,Debit/Kredit,Status,Händlerkategorie,Registrierte Kategorie"}
	cur := rapid.SampledFrom([]string{"CHF", "CHF", "CHF", "EUR"}).Draw(t, "accountCurrency")
	if cur != "CHF" {
		f["currency:other"] = true
	}
	for _, r := range c13aOrder(t, rows, true, f) {
		amt := c13aAmount(r.Cents, "")
		dk := "Belastung"
		if !r.Neg {
			dk = "Gutschrift"
			if r.Cents != 0 {
				amt = "-" + amt
			}
		}
		fcur, famt := "", ""
		if r.FX {
			f["fx"] = true
			fcur = rapid.SampledFrom([]string{"USD", "GBP", "EUR"}).Draw(t, "foreignCurrency")
			famt = c13aAmount(r.Cents*9/10+1, "")
		}
		lines = append(lines, c13aJoin(",", true, c13aDMY(r.Date), f.desc(r.T[0]), f.desc(r.T[1]), f.desc(r.T[2]), cur, amt, fcur, famt, dk, "Gebucht", f.desc(r.T[3]), f.desc(r.T[4])))
		c.Expect = append(c.Expect, c13aEffectOf(r, cur))
	}
	c.Stmt = c13aLayout(t, lines, f)
	c.Features = f.list()
	return c
}

// --- ch.viac: JSON `dailyWealth`; no bookings, one price per non-zero value.
func drawC13AViac(t *rapid.T) C13ACase {
	f := c13aFeats{}
	com := rapid.SampledFrom([]string{"Viac", "VIAC3A", "Pillar3a"}).Draw(t, "commodity")
	c := C13ACase{Importer: "viac", Args: []string{"--commodity", com}, PriceCom: com}
	type dv struct {
		Gap   int
		Value string
	}
	g := rapid.Custom(func(t *rapid.T) dv {
		var v string
		switch rapid.IntRange(0, 9).Draw(t, "valueClass") {
		case 2, 3:
			v = rapid.SampledFrom([]string{"0", "0", "0.0", "0.00"}).Draw(t, "zero")
		case 0, 1:
			v = fmt.Sprintf("%d", rapid.Int64Range(1, 999_999).Draw(t, "int"))
		case 4:
			// exactly on a rounding boundary
			v = fmt.Sprintf("%d.%02d5", rapid.Int64Range(0, 99_999).Draw(t, "int"), rapid.IntRange(0, 99).Draw(t, "cents"))
		case 5:
			v = fmt.Sprintf("%d.%d", rapid.Int64Range(0, 99_999).Draw(t, "int"), rapid.IntRange(0, 99).Draw(t, "frac"))
		default:
			n := rapid.SampledFrom([]int{3, 4, 8, 20}).Draw(t, "digits")
			var b strings.Builder
			for i := 0; i < n; i++ {
				b.WriteByte(byte('0' + rapid.IntRange(0, 9).Draw(t, "digit")))
			}
			v = fmt.Sprintf("%d.%s", rapid.Int64Range(0, 999_999).Draw(t, "int"), b.String())
		}
		return dv{Gap: rapid.SampledFrom([]int{1, 1, 1, 2, 30}).Draw(t, "gap"), Value: v}
	})
	y := rapid.IntRange(2015, 2023).Draw(t, "year")
	day := ref.FromCivil(y, rapid.IntRange(1, 12).Draw(t, "month"), rapid.IntRange(1, 28).Draw(t, "day"))
	maxN := rapid.SampledFrom([]int{3, 6, 12}).Draw(t, "maxValues")
	vals := rapid.SliceOfN(g, 0, maxN).Draw(t, "values")
	from := ref.Day(0)
	hasFrom := false
	if len(vals) > 0 && rapid.IntRange(0, 3).Draw(t, "from") == 3 {
		hasFrom = true
	}
	days := make([]ref.Day, len(vals))
	for i, v := range vals {
		day += ref.Day(v.Gap)
		days[i] = day
	}
	if hasFrom {
		from = days[rapid.IntRange(0, len(days)-1).Draw(t, "fromIndex")] + ref.Day(rapid.IntRange(-1, 1).Draw(t, "fromOff"))
		c.Args = append(c.Args, "--from", from.String())
		f["from"] = true
	}
	pretty := rapid.IntRange(0, 2).Draw(t, "pretty") == 2
	extraKeys := rapid.Bool().Draw(t, "extraKeys")
	var items []string
	for i, v := range vals {
		r := ref.R(v.Value)
		switch {
		case hasFrom && days[i] < from:
			f["before-from"] = true
		case r.Sign() == 0:
			f["zero-value"] = true
		default:
			c.Prices = append(c.Prices, c13aPrice{Date: days[i], Value: v.Value})
			if ref.Decimals(r) > 2 {
				f["rounding"] = true
			}
			if ref.Decimals(ref.Mul(r, ref.R("100"))) == 1 {
				f["rounding-tie"] = true
			}
		}
		item := fmt.Sprintf(`{"date":"%s","value":%s}`, days[i], v.Value)
		if extraKeys && i%2 == 1 {
			item = fmt.Sprintf(`{"value":%s,"note":"a \"quoted\" note","date":"%s","invested":12.5}`, v.Value, days[i])
		}
		items = append(items, item)
	}
	if pretty {
		f["pretty-json"] = true
		c.Stmt = "{\n  \"dailyWealth\": [\n    " + strings.Join(items, ",\n    ") + "\n  ]\n}\n"
	} else {
		c.Stmt = `{"dailyWealth":[` + strings.Join(items, ",") + `]}`
	}
	if extraKeys {
		f["extra-keys"] = true
		c.Stmt = strings.Replace(c.Stmt, `{`, `{"portfolio":{"name":"Global 100","dailyWealth":"n/a"},`, 1)
	}
	c.Features = f.list()
	return c
}

func TestC13A_Cumulus(t *testing.T) { runProp(t, "C13", "cumulus", drawC13ACumulus, checkC13A) }
func TestC13A_Postfinance(t *testing.T) {
	runProp(t, "C13", "postfinance", drawC13APostfinance, checkC13A)
}
func TestC13A_Supercard(t *testing.T) { runProp(t, "C13", "supercard", drawC13ASupercard, checkC13A) }
func TestC13A_Swisscard(t *testing.T) { runProp(t, "C13", "swisscard", drawC13ASwisscard, checkC13A) }
func TestC13A_Swisscard2(t *testing.T) {
	runProp(t, "C13", "swisscard2", drawC13ASwisscard2, checkC13A)
}
func TestC13A_Viac(t *testing.T) { runProp(t, "C13", "viac", drawC13AViac, checkC13A) }
