//go:build !no_c03

package props

import (
	"fmt"
	"math/big"
	"regexp"
	"sort"
	"strings"
	"testing"

	"pgregory.net/rapid"

	"verifharness/gen"
	"verifharness/knutio"
	"verifharness/ref"
)

// C03 — valued balances are mark-to-market at the latest known price.

type C03Case struct {
	Directives []ref.Directive `json:"directives"`
	Text       string          `json:"text"`
	Flags      gen.BalFlags    `json:"flags"`
}

func init() {
	Register("C03", "mark-to-market", checkC03)
	RegisterShrinker("C03", "mark-to-market", func(c C03Case) []C03Case {
		var out []C03Case
		for _, ds := range shrinkDirectives(c.Directives) {
			out = append(out, C03Case{Directives: ds, Text: ref.RenderAll(ds), Flags: c.Flags})
		}
		for _, f := range shrinkFlags(c.Flags) {
			if f.Valuation == "" {
				continue
			}
			out = append(out, C03Case{Directives: c.Directives, Text: c.Text, Flags: f})
		}
		return out
	})
}

var c03Unit = big.NewRat(1, 100000000)

func checkC03(c C03Case) (o Outcome) {
	f := c.Flags
	v := f.Valuation
	o.Labels = []string{"iv:" + ref.Interval(f.Interval).String(), fmt.Sprintf("close:%v", !f.NoClose), fmt.Sprintf("detail:%v", f.ShowCom != ""),
		fmt.Sprintf("regrouped:%v", len(f.Mappings) > 0 || len(f.Remap) > 0), fmt.Sprintf("filtered:%v", len(f.Accounts) > 0 || len(f.Commodities) > 0),
		fmt.Sprintf("window:%v", f.From != nil || f.To != nil), fmt.Sprintf("last:%v", f.Last != 0)}
	ts, _ := ref.ExpandAll(c.Directives)
	if len(ts) == 0 {
		o.Labels = append(o.Labels, "no-transactions")
		return o
	}
	dir, cleanup := knutio.Materialise(map[string]string{"j.knut": c.Text})
	defer cleanup()
	args := append(append([]string{"balance"}, f.Args()...), "j.knut")
	r := knutio.Run(knutio.Opts{Dir: dir}, args...)
	o.Evals = 1
	if r.TimedOut || r.Signaled || r.Panicked() {
		o.Violation = V("crash", "knut %v: %s\n--journal--\n%s", args, r.Brief(), clip(c.Text, 2000))
		return o
	}
	ideal, miss := ref.ValueJournalIdeal(c.Directives, v)
	min, max, _ := ref.JournalPeriod(c.Directives, ts)
	wstart, wend := min, max
	if f.From != nil && *f.From > wstart {
		wstart = *f.From
	}
	if f.To != nil && *f.To < wend {
		wend = *f.To
	}
	if miss != nil {
		o.Labels = append(o.Labels, "missing-price")
		inside := miss.Date >= wstart && miss.Date <= wend
		if inside {
			o.Labels = append(o.Labels, "missing-price-in-window")
			o.NonTrivial = true
			if r.Exit == 0 {
				o.Violation = V("number-instead-of-error", "knut %v prints a report although %s has no price in %s on %s\n%s\n--journal--\n%s", args, miss.Com, v, miss.Date, clip(r.Stdout, 1500), clip(c.Text, 2500))
				return o
			}
		}
		if r.Exit != 0 {
			if strings.TrimSpace(r.Stderr) == "" {
				o.Violation = V("no-diagnostic", "knut %v exits %d without a diagnostic", args, r.Exit)
			} else if r.Stdout != "" {
				o.Violation = V("stdout-on-failure", "knut %v fails but prints %q", args, clip(r.Stdout, 200))
			}
		}
		return o
	}
	if r.Exit != 0 {
		if strings.Contains(r.Stderr, "no price found") {
			o.Violation = V("error-instead-of-number", "all needed prices exist, but knut %v fails:\n%s\n--journal--\n%s", args, clip(r.Stderr, 600), clip(c.Text, 2500))
		} else {
			o.Labels = append(o.Labels, "knut-rejected")
		}
		return o
	}
	tbl, err := knutio.ParseBalanceText(r.Stdout)
	if err != nil {
		o.Violation = V("unreadable-report", "knut %v: %v\n%s", args, err, clip(r.Stdout, 1500))
		return o
	}
	// expected cells: the report pipeline on the ideal (untruncated) values
	var halves []ref.Half
	nEntries := map[string]int{} // per account: number of value entries (each costs at most one unit of the 8th decimal)
	nIE, nAll := 0, 0
	for _, e := range ideal {
		h := e.Half
		h.Qty = e.Value
		halves = append(halves, h)
		nEntries[h.Account]++
		nAll++
		if ref.IsIE(h.Account) {
			nIE++
		}
	}
	lf := ledgerFlags(f)
	L, err := ref.ComputeLedgerFromHalves(halves, min, max, lf)
	if err != nil {
		panic("harness: " + err.Error())
	}
	var want []string
	for _, d := range L.Columns {
		want = append(want, d.String())
	}
	if strings.Join(tbl.Dates, ",") != strings.Join(want, ",") {
		o.Violation = V("columns", "knut %v: column headers %v, expected %v", args, tbl.Dates, want)
		return o
	}
	n := len(want)
	var detailRe *regexp.Regexp
	if f.ShowCom != "" {
		detailRe = regexp.MustCompile(f.ShowCom)
	}
	// pre-window holdings: the statement does not say how a position acquired before --from is shown;
	// then only the change against the first column is compared
	preWindow := wstart > min
	if preWindow {
		o.Labels = append(o.Labels, "pre-window-history")
	}
	expRow := func(acc, com string, detailed bool) []*big.Rat {
		res := make([]*big.Rat, n)
		for i := range res {
			res[i] = new(big.Rat)
		}
		for c2, cols := range L.Cells[acc] {
			if detailed && c2 != com {
				continue
			}
			for i, x := range cols {
				if x != nil {
					res[i].Add(res[i], x)
				}
			}
		}
		return res
	}
	mappedRows := len(f.Mappings) > 0 || len(f.Remap) > 0
	tolFor := func(acc string) *big.Rat {
		k := nEntries[acc] + 1
		if acc == "Equity:Equity" && !f.NoClose {
			k += nIE
		}
		if mappedRows {
			// several accounts may be collapsed onto one row: bound by all entries
			k = nAll + 1
		}
		return new(big.Rat).Mul(c03Unit, big.NewRat(int64(k), 1))
	}
	seen := map[string]bool{}
	nonV, multiCol := false, n >= 2
	for _, row := range tbl.Rows {
		if row.Section != "AL" && row.Section != "EIE" {
			continue
		}
		acc := row.Account()
		if row.Name != "" {
			seen[acc] = true
		}
		if row.Name == "" && row.Comm == "" {
			continue
		}
		detailed := detailRe != nil && detailRe.MatchString(acc)
		hasCells := false
		for _, cell := range row.Cells {
			if cell != "" {
				hasCells = true
			}
		}
		if !tbl.HasComm || !detailed {
			// one aggregated line per account
			if row.Name == "" {
				o.Violation = V("unexpected-line", "knut %v: account %s has several lines although it is not detailed\n%s", args, acc, clip(r.Stdout, 2500))
				return o
			}
		}
		if tbl.HasComm && row.Comm == "" && !hasCells {
			continue
		}
		exp := expRow(acc, row.Comm, detailed)
		tol := tolFor(acc)
		for i := 0; i < n; i++ {
			got, err := row.Value(i)
			if err != nil {
				o.Violation = V("unreadable-report", "%v", err)
				return o
			}
			g, e := got, exp[i]
			if preWindow {
				if i == 0 {
					continue
				}
				g0, _ := row.Value(0)
				g = ref.Sub(got, g0)
				e = ref.Sub(exp[i], exp[0])
			}
			if ref.Abs(ref.Sub(g, e)).Cmp(tol) > 0 {
				what := "value"
				if preWindow {
					what = "change since the first column"
				}
				kind := "value-mismatch"
				if ref.IsAL(acc) {
					kind = "mtm-mismatch"
				} else if strings.HasPrefix(acc, "Income:") && isMirror(acc, c.Directives) {
					kind = "gain-mismatch"
				}
				o.Violation = V(kind, "knut %v\n%s %s column %s: %s shown %s, expected %s (tolerance %s)\n%s\n--journal--\n%s", args, acc, row.Comm, want[i], what,
					ref.DecString(g), e.FloatString(10), tol.FloatString(8), clip(r.Stdout, 3000), clip(c.Text, 3000)).With("section", row.Section)
				return o
			}
		}
		if detailed {
			seen[acc+"\x00"+row.Comm] = true
		}
	}
	// every expected non-zero cell must be shown somewhere
	var accs []string
	for a := range L.Cells {
		accs = append(accs, a)
	}
	sort.Strings(accs)
	for _, a := range accs {
		exp := expRow(a, "", false)
		nz := false
		for i, e := range exp {
			if preWindow && i == 0 {
				continue
			}
			if ref.Abs(e).Cmp(tolFor(a)) > 0 {
				nz = true
			}
		}
		if nz && !seen[a] {
			o.Violation = V("row-missing", "knut %v: account %s has a value but no row\n%s\n--journal--\n%s", args, a, clip(r.Stdout, 2500), clip(c.Text, 2500))
			return o
		}
	}
	// non-trivial: a non-V position held across a price change inside the window, and (chain/inverse, liability, or >=2 columns)
	pb := ref.NewPriceBook(c.Directives)
	heldAcross, liability, inverseOrChain := false, false, false
	for _, e := range ideal {
		if e.Adj && e.Date >= wstart && e.Date <= wend && ref.IsAL(e.Account) {
			heldAcross = true
			if strings.HasPrefix(e.Account, "Liabilities") {
				liability = true
			}
		}
		if e.Com != v {
			nonV = true
		}
	}
	_ = nonV
	direct := map[string]bool{}
	for _, d := range c.Directives {
		if d.Kind == ref.KPrice {
			if d.Target == v {
				direct[d.Com] = true
			}
			if d.Com == v {
				inverseOrChain = true
			}
		}
	}
	for com := range pb.Normalized(v, max) {
		if com != v && !direct[com] {
			inverseOrChain = true
		}
	}
	o.NonTrivial = heldAcross && (inverseOrChain || liability || multiCol)
	if heldAcross {
		o.Labels = append(o.Labels, "held-across-price-change")
	}
	if liability {
		o.Labels = append(o.Labels, "liability-revalued")
	}
	return o
}

func isMirror(acc string, ds []ref.Directive) bool {
	for _, d := range ds {
		for _, b := range d.Bookings {
			for _, a := range []string{b.Credit, b.Debit} {
				if ref.IsAL(a) && ref.ValuationAccount(a) == acc {
					return true
				}
			}
		}
	}
	return false
}

func drawC03(t *rapid.T) C03Case {
	cfg := gen.HistCfg{
		MaxActions: rapid.SampledFrom([]int{8, 15, 30, 45}).Draw(t, "maxActions"),
		Accruals:   rapid.IntRange(0, 3).Draw(t, "accruals") == 0,
		Assertions: rapid.Bool().Draw(t, "assertions"), Closes: true,
		Prices:    rapid.SampledFrom([]int{1, 1, 1, 2}).Draw(t, "prices"),
		MaxDec:    rapid.SampledFrom([]int{2, 4, 8}).Draw(t, "maxDec"),
		WideDates: true,
	}
	gen.MaybeLarge(t, &cfg, 4)
	j := gen.GenJournal(t, cfg)
	if rapid.IntRange(0, 3).Draw(t, "shuffle") == 0 {
		j.Directives = gen.Shuffle(t, j.Directives)
	}
	c := C03Case{Directives: j.Directives, Text: ref.RenderAll(j.Directives)}
	f := gen.DrawBalFlags(t, j, gen.FlagOpts{Exact: true, Mappings: true, Hide: true, Remap: true, Filters: true})
	if rapid.IntRange(0, 2).Draw(t, "plainFlags") != 0 {
		// most cases stay without regrouping, so that the mirror-account clause is checked row by row
		f.Mappings, f.Remap, f.Accounts, f.Commodities = nil, nil, nil, nil
	}
	f.CSV, f.Digits, f.Diff = false, 8, false
	f.Valuation = rapid.SampledFrom(j.Commodities).Draw(t, "valuation")
	if rapid.Bool().Draw(t, "detail") {
		f.ShowCom = rapid.SampledFrom([]string{".", "^Assets", "^Liabilities", "Bank|Broker|Cash"}).Draw(t, "detailRe")
	}
	c.Flags = f
	return c
}

func TestC03(t *testing.T) {
	runProp(t, "C03", "mark-to-market", drawC03, checkC03)
}
