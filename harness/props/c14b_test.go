//go:build !no_c14b

package props

import (
	"fmt"
	"strings"
	"testing"

	"pgregory.net/rapid"

	"verifharness/gen"
	"verifharness/knutio"
	"verifharness/ref"
)

// C14, second oracle: a failure that is detected late (after a long, valid prefix of the journal has
// been processed) still fails cleanly - non-zero exit, diagnostic on stderr, and an EMPTY stdout for
// the report commands, however much output had been produced before the failing day.

type C14LateCase struct {
	Text  string   `json:"text"`
	Argv  []string `json:"argv"`
	Fault string   `json:"fault"`
	Days  int      `json:"days"`
	Procs string   `json:"procs,omitempty"`
}

func init() { Register("C14", "late-failure", checkC14Late) }

func checkC14Late(c C14LateCase) (o Outcome) {
	dir, cleanup := knutio.Materialise(map[string]string{"j.knut": c.Text})
	defer cleanup()
	var env []string
	if c.Procs != "" {
		env = []string{"GOMAXPROCS=" + c.Procs}
	}
	r := knutio.Run(knutio.Opts{Dir: dir, Env: env, Prefix: []string{"prlimit", "--as=4294967296"}}, c.Argv...)
	o.Evals = 1
	o.Labels = []string{"late:" + c.Argv[0], "late-fault:" + c.Fault}
	o.NonTrivial = c.Days >= 20
	cmd := strings.Join(c.Argv, " ")
	switch {
	case r.TimedOut:
		o.Violation = V("hang", "knut %s did not terminate: %s", cmd, r.Brief()).With("class", "late-failure")
	case r.Signaled || r.Panicked():
		o.Violation = V("panic", "knut %s: %s", cmd, r.Brief()).With("class", "late-failure")
	case r.Exit == 0:
		o.Violation = V("late-error-lost", "the journal ends with a %s fault, but knut %s exits 0\n--journal tail--\n%s", c.Fault, cmd, clip(tail(c.Text, 600), 700))
	case strings.TrimSpace(r.Stderr) == "":
		o.Violation = V("no-diagnostic", "knut %s exits %d without a diagnostic", cmd, r.Exit)
	case r.Stdout != "":
		o.Violation = V("stdout-on-failure", "knut %s fails (exit %d) but leaves %d bytes on stdout: %q…", cmd, r.Exit, len(r.Stdout), clip(r.Stdout, 200)).With("cmd", c.Argv[0])
	}
	return o
}

func tail(s string, n int) string {
	if len(s) <= n {
		return s
	}
	return s[len(s)-n:]
}

func drawC14Late(t *rapid.T) C14LateCase {
	cfg := gen.HistCfg{
		MaxActions: rapid.SampledFrom([]int{60, 120, 200}).Draw(t, "maxActions"),
		Accruals:   rapid.IntRange(0, 3).Draw(t, "accruals") == 0,
		Assertions: true, Closes: true, Perf: true, Prices: 1, MaxDec: 4,
	}
	gen.MaybeLarge(t, &cfg, 4)
	j := gen.GenJournal(t, cfg)
	_, hi, _ := gen.DatesOf(j)
	v := rapid.SampledFrom(j.Commodities).Draw(t, "valuation")
	c := C14LateCase{Procs: rapid.SampledFrom([]string{"", "", "1", "2", "4"}).Draw(t, "procs")}
	cmd := rapid.SampledFrom([]string{"check-write", "check-write", "balance", "balance-valued", "print", "transcode", "register", "weights"}).Draw(t, "cmd")
	c.Fault = rapid.SampledFrom([]string{"assertion", "unopened", "double-open", "close-nonzero", "missing-price"}).Draw(t, "fault")
	valued := cmd == "balance-valued" || cmd == "transcode" || cmd == "weights"
	if c.Fault == "missing-price" && !valued {
		c.Fault = "assertion"
	}
	day := hi + 1
	ds := append([]ref.Directive{}, j.Directives...)
	switch c.Fault {
	case "assertion":
		ds = append(ds, ref.Directive{Kind: ref.KAssert, Date: day, Balances: []ref.Balance{{Account: j.Accounts[0], Qty: "123456789.5", Com: j.Commodities[0]}}})
	case "unopened":
		ds = append(ds, ref.Directive{Kind: ref.KTrx, Date: day, Desc: "late fault", Bookings: []ref.Booking{{Credit: "Assets:NeverOpened", Debit: "Expenses:NeverOpened", Qty: "1", Com: j.Commodities[0]}}})
	case "double-open":
		ds = append(ds, ref.Directive{Kind: ref.KOpen, Date: day, Account: "Assets:Twice"}, ref.Directive{Kind: ref.KOpen, Date: day + 1, Account: "Assets:Twice"})
	case "close-nonzero":
		ds = append(ds, ref.Directive{Kind: ref.KOpen, Date: day, Account: "Assets:Late"}, ref.Directive{Kind: ref.KOpen, Date: day, Account: "Equity:Late"},
			ref.Directive{Kind: ref.KTrx, Date: day, Desc: "late", Bookings: []ref.Booking{{Credit: "Equity:Late", Debit: "Assets:Late", Qty: "5", Com: j.Commodities[0]}}},
			ref.Directive{Kind: ref.KClose, Date: day + 1, Account: "Assets:Late"})
	case "missing-price":
		ds = append(ds, ref.Directive{Kind: ref.KOpen, Date: day, Account: "Assets:Late"}, ref.Directive{Kind: ref.KOpen, Date: day, Account: "Equity:Late"},
			ref.Directive{Kind: ref.KTrx, Date: day, Desc: "late", Bookings: []ref.Booking{{Credit: "Equity:Late", Debit: "Assets:Late", Qty: "5", Com: "NOPRICE"}}})
	}
	if rapid.IntRange(0, 2).Draw(t, "shuffle") == 0 {
		ds = gen.Shuffle(t, ds)
	}
	c.Text = ref.RenderAll(ds)
	days := map[ref.Day]bool{}
	for _, d := range ds {
		days[d.Date] = true
	}
	c.Days = len(days)
	to := (day + 10).String()
	switch cmd {
	case "check-write":
		c.Argv = []string{"check", "--write", "j.knut"}
	case "balance":
		c.Argv = []string{"balance", "--color=false", "--to", to, rapid.SampledFrom([]string{"--months", "--weeks", "--quarters"}).Draw(t, "iv"), "j.knut"}
		if rapid.Bool().Draw(t, "csv") {
			c.Argv = append([]string{"balance", "--csv"}, c.Argv[2:]...)
		}
	case "balance-valued":
		c.Argv = []string{"balance", "--color=false", "-v", v, "--to", to, "--months", "j.knut"}
	case "print":
		c.Argv = []string{"print", "j.knut"}
	case "transcode":
		c.Argv = []string{"transcode", "-v", v, "j.knut"}
	case "register":
		c.Argv = []string{"register", "--color=false", "--to", to, "--months", "j.knut"}
	case "weights":
		c.Argv = []string{"portfolio", "weights", "-v", v, "--to", to, "--months", "j.knut"}
	}
	_ = fmt.Sprint
	return c
}

func TestC14Late(t *testing.T) {
	runProp(t, "C14", "late-failure", drawC14Late, checkC14Late)
}
