//go:build !no_fuzz

package props

import (
	"os"
	"path/filepath"
	"strings"
	"testing"
)

// seedJournals adds every journal-like file of the repository (testdata,
// doc) plus hostile constants to a native fuzz target, unless the driver asks
// for an empty starting corpus.
func seedJournals(f *testing.F) {
	if os.Getenv("VERIF_FUZZ_EMPTY") != "" {
		f.Add([]byte(""))
		return
	}
	repo := os.Getenv("KNUT_REPO")
	if repo == "" {
		repo = "/repo"
	}
	n := 0
	filepath.Walk(repo, func(p string, info os.FileInfo, err error) error {
		if err != nil || info.IsDir() || info.Size() > 64<<10 {
			return nil
		}
		if strings.Contains(p, "/.git/") {
			return nil
		}
		ext := filepath.Ext(p)
		if ext == ".knut" || ext == ".prices" || (strings.Contains(p, "testdata") && (ext == ".golden" || ext == ".input")) {
			if b, err := os.ReadFile(p); err == nil && n < 200 {
				f.Add(b)
				n++
			}
		}
		return nil
	})
	for _, s := range []string{
		"", "\n", "\xff", "2020-01-01", "2020-01-01 open A", "2020-01-01 \"", "@accrue", "@performance(", "include \"",
		"2020-01-01 \"x\"\nA:B C:D 1 X", "2020-01-01 balance\nA:B 1 X\nA:B 2 Y\n", "@accrue monthly 2020-01-01 2020-12-31 A:B\n@performance(X,Y)\n2020-01-01 \"x\"\nA:B C:D 1 X\n\n",
		"2020-01-01 price A 1.5 B\r\n", "# c\n* h\n// n\n", "\xf0\x9f\x98", "2020-01-01 open $x", "\xef\xbb\xbf2020-01-01 open Assets:A\n", "\xef\xbb\xbf", "# 50% of rent\n2020-01-01 open Assets:A\n", "１２３４-０１-０１ open A",
	} {
		f.Add([]byte(s))
	}
}

func FuzzC07(f *testing.F) {
	seedJournals(f)
	f.Fuzz(func(t *testing.T, b []byte) {
		if len(b) > 64<<10 {
			t.Skip()
		}
		if o := checkC07(C07Case{Text: b, Source: "fuzz"}); o.Violation != nil {
			t.Fatalf("VIOLATION property=C07 kind=%s: %s", o.Violation.Kind, o.Violation.Msg)
		}
	})
}
