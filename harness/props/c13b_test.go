//go:build !no_c13b

package props

import (
	"fmt"
	"math/big"
	"sort"
	"strings"
	"testing"

	"pgregory.net/rapid"

	"verifharness/gen"
	"verifharness/knutio"
	"verifharness/ref"
	"verifharness/stats"
)

// C13 (part B) — importers turn every statement row into a valid, faithful
// journal entry: revolut, revolut2, com.wise, ch.swissquote,
// us.interactivebrokers.
//
// A case is a chronological row model; checkC13B lays it out in the importer's
// statement format (balance columns / period-end positions computed from a
// zero opening balance), runs the real binary and compares with the effects the
// row model implies. The expected effects encode each importer's documented
// sign convention (golden file + column names), see DESIGN §5 C13.
//
// Deliberately not generated (shapes whose meaning the golden files do not
// document, or that the importers do not claim to read): wise same-currency
// NEUTRAL rows, cross-currency IN rows and target-side fees; Interactive
// Brokers amounts with more than two decimals in fields the importer rounds
// (quantity, proceeds, forex commission, deposits, forex balances), thousands
// separators in the two IB fields read without comma stripping (stock
// Comm/Fee, Open Positions quantity), symbols outside [A-Za-z0-9] ("BRK B"),
// short stock positions; negative Revolut balances; carriage returns and
// invalid UTF-8 in free text.

// c13bIncludeQuote: a double quote in a free-text field yields an unparseable
// transaction header (DESIGN §7 row 18) — handled by part A of C13; part B
// does not generate it unless this flag is set.
var c13bIncludeQuote = true // the quote defect is fixed in /repo, quotes are generated again

// c13bExcludeRevolut2MultiCurrencyDay: revolut2 emits its balance assertions
// by ranging over a Go map, so the order of the assertions of one date with
// several currencies changes from run to run (DESIGN §7 row 21, kind
// "nondeterministic-output"). While set, the generator gives every completed
// row of a date the currency of the first row of that date.
var c13bExcludeRevolut2MultiCurrencyDay = false // fixed in /repo (fix: revolut2 importer emits balance assertions in a fixed order)

const (
	c13bAcct     = "Assets:Import"
	c13bFee      = "Expenses:Fees"
	c13bTrading  = "Expenses:Trading"
	c13bDividend = "Income:Dividends"
	c13bTax      = "Expenses:Tax"
	c13bInterest = "Income:Interest"
)

// c13bRow is one statement row (or, for swissquote forex, one pair of rows).
// Amounts are integers in 1/100 of the currency unit; Q is a share count for
// stock rows and 1/100 units for forex quantities.
type c13bRow struct {
	Kind string `json:"k"`
	Gap  int    `json:"gap,omitempty"` // days since the previous row (rows are chronological)
	Cur  string `json:"cur,omitempty"`
	Cur2 string `json:"cur2,omitempty"`
	A    int64  `json:"a,omitempty"`
	B    int64  `json:"b,omitempty"`
	Q    int64  `json:"q,omitempty"`
	Sym  string `json:"sym,omitempty"`
	T1   string `json:"t1,omitempty"`
	T2   string `json:"t2,omitempty"`
	F    int    `json:"f,omitempty"` // number-format variant
}

type C13BCase struct {
	Importer string    `json:"importer"`
	Base     ref.Day   `json:"base"` // date of the first row
	Cur      string    `json:"cur,omitempty"`
	Rows     []c13bRow `json:"rows"`
	Name     string    `json:"name,omitempty"`  // free text in a header line that is never printed
	Tail     int       `json:"tail,omitempty"`  // IB: days between the last row and the period end
	Noise    bool      `json:"noise,omitempty"` // IB: execution ("Trade") / lot / total lines
	Reverse  bool      `json:"reverse,omitempty"`
}

func init() {
	for _, o := range []string{"revolut", "revolut2", "wise", "swissquote", "interactivebrokers"} {
		Register("C13", o, checkC13B)
	}
}

// ---------------------------------------------------------------- expectation

type c13bExp struct {
	date ref.Day
	eff  map[string]*big.Rat
}

type c13bBal struct {
	date ref.Day
	com  string
	qty  *big.Rat
}

type c13bPlan struct {
	cmd      string
	args     []string
	stmt     string
	exp      []c13bExp
	asserts  []c13bBal
	booking  int // number of booking rows (forex pair = 1)
	labels   []string
	features map[string]bool
	multiDay bool // revolut2: some date carries assertions in several currencies
	split    []string // revolut2, com.wise: the rows of the statement dealt out by whole days over two complete statement files
}

func c13bCents(v int64) *big.Rat { return new(big.Rat).SetFrac64(v, 100) }

func c13bKey(d ref.Day, eff map[string]*big.Rat) string {
	var ks []string
	for k, v := range eff {
		if v.Sign() != 0 {
			ks = append(ks, k)
		}
	}
	sort.Strings(ks)
	var sb strings.Builder
	sb.WriteString(d.String())
	for _, k := range ks {
		fmt.Fprintf(&sb, " %s:%s", k, ref.DecString(eff[k]))
	}
	return sb.String()
}

func (p *c13bPlan) expect(d ref.Day, pairs ...any) {
	eff := map[string]*big.Rat{}
	for i := 0; i+1 < len(pairs); i += 2 {
		com := pairs[i].(string)
		q := pairs[i+1].(*big.Rat)
		if old, ok := eff[com]; ok {
			eff[com] = ref.Add(old, q)
		} else {
			eff[com] = q
		}
	}
	p.exp = append(p.exp, c13bExp{date: d, eff: eff})
}

func (p *c13bPlan) label(l string) { p.labels = append(p.labels, l) }

func (p *c13bPlan) feature(f string) {
	if p.features == nil {
		p.features = map[string]bool{}
	}
	p.features[f] = true
}

// ---------------------------------------------------------------- formatting

// c13bMoney renders v (1/100 units) with two decimals and the given thousands separator.
func c13bMoney(v int64, sep string) string {
	neg := v < 0
	if neg {
		v = -v
	}
	ip := fmt.Sprintf("%d", v/100)
	if sep != "" {
		var parts []string
		for len(ip) > 3 {
			parts = append([]string{ip[len(ip)-3:]}, parts...)
			ip = ip[:len(ip)-3]
		}
		parts = append([]string{ip}, parts...)
		ip = strings.Join(parts, sep)
	}
	s := fmt.Sprintf("%s.%02d", ip, v%100)
	if neg {
		s = "-" + s
	}
	return s
}

// c13bMoneyVar renders v in one of the plain shapes the formats show: 12.30, 12.3, 12 / 12.0.
func c13bMoneyVar(v int64, variant int, minOneDecimal bool) string {
	s := c13bMoney(v, "")
	switch variant % 3 {
	case 1:
		if strings.HasSuffix(s, "0") {
			s = s[:len(s)-1]
		}
	case 2:
		s = strings.TrimRight(s, "0")
		if strings.HasSuffix(s, ".") {
			if minOneDecimal {
				s += "0"
			} else {
				s = s[:len(s)-1]
			}
		}
	}
	return s
}

func c13bInt(v int64, sep string) string {
	s := c13bMoney(v*100, sep)
	return s[:len(s)-3]
}

var c13bMonthsShort = []string{"Jan", "Feb", "Mar", "Apr", "May", "Jun", "Jul", "Aug", "Sep", "Oct", "Nov", "Dec"}
var c13bMonthsLong = []string{"January", "February", "March", "April", "May", "June", "July", "August", "September", "October", "November", "December"}

// c13bCSV joins fields into one CSV record, quoting where the content needs it.
func c13bCSV(comma string, fields ...string) string {
	out := make([]string, len(fields))
	for i, f := range fields {
		if strings.Contains(f, comma) || strings.ContainsAny(f, "\"\n\r") {
			f = `"` + strings.ReplaceAll(f, `"`, `""`) + `"`
		}
		out[i] = f
	}
	return strings.Join(out, comma) + "\n"
}

func c13bHostile(s string) bool {
	for _, r := range s {
		if !(r >= 'a' && r <= 'z' || r >= 'A' && r <= 'Z' || r >= '0' && r <= '9' || r == ' ') {
			return true
		}
	}
	return strings.HasPrefix(s, " ") || strings.HasSuffix(s, " ") || s == ""
}

func (p *c13bPlan) text(ss ...string) {
	for _, s := range ss {
		if c13bHostile(s) {
			p.feature("hostile")
		}
	}
}

func (p *c13bPlan) sep(ss ...string) {
	for _, s := range ss {
		if strings.ContainsAny(s, "',") {
			p.feature("thousands")
		}
	}
}

// ---------------------------------------------------------------- revolut

func c13bPlanRevolut(c C13BCase) *c13bPlan {
	p := &c13bPlan{cmd: "revolut", args: []string{"--account", c13bAcct}}
	cur := c.Cur
	var lines []string
	var bal int64
	day := c.Base
	type dayBal struct {
		d ref.Day
		b int64
	}
	var eod []dayBal
	for i, r := range c.Rows {
		if i > 0 {
			day += ref.Day(r.Gap)
		}
		y, m, d := day.Civil()
		date := fmt.Sprintf("%d %s %d", d, c13bMonthsShort[m-1], y)
		amt := " " + c13bMoney(r.A, "'")
		var out, in, xo, xi, refText, rate string
		rate = " "
		refText = r.T1
		switch r.Kind {
		case "out":
			out = amt
			bal -= r.A
			p.expect(day, cur, c13bCents(-r.A))
		case "in":
			in = amt
			bal += r.A
			p.expect(day, cur, c13bCents(r.A))
		case "fxsell":
			out = amt
			bal -= r.A
			xo = r.Cur2 + "  " + c13bMoney(r.B, "'")
			refText = "Sold " + cur + " to " + r.Cur2
			rate = "FX-rate € 1 = " + r.Cur2 + " 1.0809"
			p.expect(day, cur, c13bCents(-r.A), r.Cur2, c13bCents(r.B))
			p.feature("fx")
			p.sep(xo)
		case "fxbuy":
			in = amt
			bal += r.A
			xi = r.Cur2 + "  " + c13bMoney(r.B, "'")
			refText = "Bought " + cur + " from " + r.Cur2
			rate = "FX-rate € 1 = " + r.Cur2 + " 1.0777"
			p.expect(day, cur, c13bCents(r.A), r.Cur2, c13bCents(-r.B))
			p.feature("fx")
			p.sep(xi)
		}
		p.booking++
		p.label("revolut:row:" + r.Kind)
		balText := " " + c13bMoney(bal, "'")
		p.sep(amt, balText)
		p.text(r.T1, r.T2)
		lines = append(lines, c13bCSV(";", date, refText, out, in, xo, xi, balText, rate, r.T2))
		if n := len(eod); n > 0 && eod[n-1].d == day {
			eod[n-1].b = bal
		} else {
			eod = append(eod, dayBal{day, bal})
		}
	}
	for _, e := range eod {
		p.asserts = append(p.asserts, c13bBal{e.d, cur, c13bCents(e.b)})
	}
	if len(eod) > 0 {
		p.feature("assert")
	}
	var sb strings.Builder
	sb.WriteString(fmt.Sprintf("Completed Date;Reference;Paid Out (%s);Paid In (%s);Exchange Out;Exchange In; Balance (%s);Exchange Rate;Category\n", cur, cur, cur))
	for i := len(lines) - 1; i >= 0; i-- { // the statement lists the newest row first
		sb.WriteString(lines[i])
	}
	p.stmt = sb.String()
	return p
}

// ---------------------------------------------------------------- revolut2

func c13bClock(i int) string { return fmt.Sprintf("%02d:%02d:%02d", (7+i)%24, (i*7)%60, (i*13)%60) }

func c13bPlanRevolut2(c C13BCase) *c13bPlan {
	p := &c13bPlan{cmd: "revolut2", args: []string{"--account", c13bAcct, "--fee", c13bFee}}
	bal := map[string]int64{}
	day := c.Base
	var sb strings.Builder
	sb.WriteString("Type,Product,Started Date,Completed Date,Description,Amount,Fee,Currency,State,Balance\n")
	type key struct {
		d ref.Day
		c string
	}
	last := map[key]int64{}
	var order []key
	perDay := map[ref.Day]map[string]bool{}
	const header = "Type,Product,Started Date,Completed Date,Description,Amount,Fee,Currency,State,Balance\n"
	var rowDays []ref.Day
	var rowStart []int // offset of each row's line in sb
	for i, r := range c.Rows {
		if i > 0 {
			day += ref.Day(r.Gap)
		}
		rowDays = append(rowDays, day)
		rowStart = append(rowStart, sb.Len())
		started := (day - ref.Day(r.F%2)).String() + " " + c13bClock(i)
		p.text(r.T1)
		switch r.Kind {
		case "pending":
			// not completed yet: no completed date, no balance; must not be booked
			sb.WriteString(c13bCSV(",", r.T2, "Current", day.String()+" "+c13bClock(i), "", r.T1, c13bMoney(r.A, ""), c13bMoney(r.B, ""), r.Cur, "PENDING", ""))
			p.label("revolut2:row:pending")
			continue
		}
		bal[r.Cur] += r.A - r.B
		p.expect(day, r.Cur, c13bCents(r.A-r.B))
		p.booking++
		if r.B != 0 {
			p.feature("fee")
			p.label("revolut2:row:fee")
		}
		if r.A > 0 {
			p.label("revolut2:row:in")
		} else {
			p.label("revolut2:row:out")
		}
		sb.WriteString(c13bCSV(",", r.T2, "Current", started, day.String()+" "+c13bClock(i+1), r.T1, c13bMoney(r.A, ""), c13bMoney(r.B, ""), r.Cur, "COMPLETED", c13bMoney(bal[r.Cur], "")))
		k := key{day, r.Cur}
		if _, ok := last[k]; !ok {
			order = append(order, k)
		}
		last[k] = bal[r.Cur]
		if perDay[day] == nil {
			perDay[day] = map[string]bool{}
		}
		perDay[day][r.Cur] = true
	}
	for _, k := range order {
		p.asserts = append(p.asserts, c13bBal{k.d, k.c, c13bCents(last[k])})
	}
	if len(order) > 0 {
		p.feature("assert")
	}
	for _, m := range perDay {
		if len(m) > 1 {
			p.multiDay = true
		}
	}
	if p.multiDay {
		p.label("revolut2:multi-currency-day")
	}
	p.stmt = sb.String()
	// two statement files covering consecutive ranges of days (the importer takes several files)
	for i := (len(rowDays) + 1) / 2; i < len(rowDays); i++ {
		if i > 0 && rowDays[i] != rowDays[i-1] {
			p.split = []string{p.stmt[:rowStart[i]], header + p.stmt[rowStart[i]:]}
			break
		}
	}
	return p
}

// ---------------------------------------------------------------- wise

func c13bPlanWise(c C13BCase) *c13bPlan {
	p := &c13bPlan{cmd: "com.wise", args: []string{"--account", c13bAcct, "--fee", c13bFee, "--trading", c13bTrading}}
	var lines []string
	var lineDays []ref.Day
	day := c.Base
	for i, r := range c.Rows {
		if i > 0 {
			day += ref.Day(r.Gap)
		}
		created := day.String() + " " + c13bClock(i)
		finished := (day + ref.Day(r.F%2)).String() + " " + c13bClock(i+3)
		status, dir := "COMPLETED", ""
		id := ""
		feeAmt, feeCur := "", ""
		if r.B != 0 || r.F%4 < 2 {
			feeAmt, feeCur = c13bMoneyVar(r.B, 0, true), r.Cur
		}
		src := c13bMoneyVar(r.A, r.F, true)
		tgtCur, tgt, rate := r.Cur, src, "1.0"
		switch r.Kind {
		case "out":
			dir, id = "OUT", fmt.Sprintf("CARD_TRANSACTION-%d", 100+i)
			p.expect(day, r.Cur, c13bCents(-r.A-r.B))
		case "in":
			dir, id = "IN", fmt.Sprintf("TRANSFER-%d", 100+i)
			p.expect(day, r.Cur, c13bCents(r.A-r.B))
		case "out-cross":
			dir, id = "OUT", fmt.Sprintf("CARD_TRANSACTION-%d", 100+i)
			tgtCur, tgt, rate = r.Cur2, c13bMoneyVar(r.Q, r.F/3, true), "1.75685000"
			// documented pair: the conversion, then the payment in the target currency
			p.expect(day, r.Cur, c13bCents(-r.A-r.B), r.Cur2, c13bCents(r.Q))
			p.expect(day, r.Cur2, c13bCents(-r.Q))
			p.feature("fx")
		case "neutral-cross":
			dir, id = "NEUTRAL", fmt.Sprintf("BALANCE_TRANSACTION-%d", 100+i)
			tgtCur, tgt, rate = r.Cur2, c13bMoneyVar(r.Q, r.F/3, true), "1.83842000"
			p.expect(day, r.Cur, c13bCents(-r.A-r.B), r.Cur2, c13bCents(r.Q))
			p.feature("fx")
		case "cancelled":
			status, dir, id = "CANCELLED", "OUT", fmt.Sprintf("CARD_TRANSACTION-%d", 100+i)
			if r.B == 0 {
				feeAmt, feeCur = "", ""
			}
			rate = "1"
		}
		p.label("wise:row:" + r.Kind)
		if r.Kind != "cancelled" {
			p.booking++
			if r.B != 0 {
				p.feature("fee")
				p.label("wise:row:fee")
			}
		}
		p.text(r.T1, r.T2)
		lines = append(lines, c13bCSV(",", id, status, dir, created, finished, feeAmt, feeCur, "", "", c.Name, src, r.Cur, r.T1, tgt, tgtCur, rate, r.T2, ""))
		lineDays = append(lineDays, day)
	}
	p.text(c.Name)
	var sb strings.Builder
	sb.WriteString(`ID,Status,Direction,"Created on","Finished on","Source fee amount","Source fee currency","Target fee amount","Target fee currency","Source name","Source amount (after fees)","Source currency","Target name","Target amount (after fees)","Target currency","Exchange rate",Reference,Batch` + "\n")
	if c.Reverse {
		for i := len(lines) - 1; i >= 0; i-- {
			sb.WriteString(lines[i])
		}
	} else {
		for _, l := range lines {
			sb.WriteString(l)
		}
	}
	p.stmt = sb.String()
	// com.wise takes several files (one export per currency balance, say): whole days are dealt out over two files so
	// that the second file's days lie strictly inside the first one's period whenever there are three days or more
	// (with two days the second file extends the period instead)
	var days []ref.Day
	for _, d := range lineDays {
		if len(days) == 0 || days[len(days)-1] != d {
			days = append(days, d)
		}
	}
	if len(days) >= 2 {
		inB := map[ref.Day]bool{}
		for i, d := range days {
			if i%2 == 1 && (i < len(days)-1 || len(days) == 2) {
				inB[d] = true
			}
		}
		header := p.stmt[:strings.Index(p.stmt, "\n")+1]
		fa, fb := header, header
		emit := func(i int) {
			if inB[lineDays[i]] {
				fb += lines[i]
			} else {
				fa += lines[i]
			}
		}
		if c.Reverse {
			for i := len(lines) - 1; i >= 0; i-- {
				emit(i)
			}
		} else {
			for i := range lines {
				emit(i)
			}
		}
		p.split = []string{fa, fb}
	}
	return p
}

// ---------------------------------------------------------------- swissquote

func c13bPlanSwissquote(c C13BCase) *c13bPlan {
	p := &c13bPlan{cmd: "ch.swissquote", args: []string{"--account", c13bAcct, "--interest", c13bInterest, "--dividend", c13bDividend,
		"--tax", c13bTax, "--fee", c13bFee, "--trading", c13bTrading}}
	var lines []string
	bal := map[string]int64{}
	day := c.Base
	for i, r := range c.Rows {
		if i > 0 {
			day += ref.Day(r.Gap)
		}
		y, m, d := day.Civil()
		stamp := fmt.Sprintf("%02d-%02d-%04d %s", d, m, y, c13bClock(i))
		m2 := func(v int64) string { s := c13bMoney(v, "'"); p.sep(s); return s }
		row := func(order, typ, sym, name, isin, qty, price, fee string, net int64, cur string) string {
			bal[cur] += net
			return c13bCSV(";", stamp, order, typ, sym, name, isin, qty, price, fee, "0.00", m2(net), m2(bal[cur]), cur)
		}
		kind := r.Kind
		switch {
		case kind == "Kauf":
			net := -(r.Q*r.A + r.B)
			lines = append(lines, row(fmt.Sprintf("%08d", 76396333+i), "Kauf", r.Sym, r.T1, r.T2, fmt.Sprintf("%d.0", r.Q), m2(r.A), m2(r.B), net, r.Cur))
			p.expect(day, r.Cur, c13bCents(net), r.Sym, new(big.Rat).SetInt64(r.Q))
			p.label("swissquote:row:buy")
			p.feature("fee")
		case kind == "Verkauf":
			net := r.Q*r.A - r.B
			lines = append(lines, row(fmt.Sprintf("%08d", 76396333+i), "Verkauf", r.Sym, r.T1, r.T2, fmt.Sprintf("%d.0", r.Q), m2(r.A), m2(r.B), net, r.Cur))
			p.expect(day, r.Cur, c13bCents(net), r.Sym, new(big.Rat).SetInt64(-r.Q))
			p.label("swissquote:row:sell")
			p.feature("fee")
		case kind == "forex" || kind == "forex-comp":
			cr, db := "Forex-Gutschrift", "Forex-Belastung"
			if kind == "forex-comp" {
				cr, db = "Fx-Gutschrift Comp.", "Fx-Belastung Comp."
			}
			l1 := row("00000000", cr, "", "", "", "1.0", m2(r.A), "0.00", r.A, r.Cur)
			l2 := row("00000000", db, "", "", "", "1.0", m2(r.B), "0.00", -r.B, r.Cur2)
			if r.F%2 == 1 { // the debit leg is listed above the credit leg
				l1, l2 = l2, l1
			}
			// lines are reversed when written (newest first): keep the pair adjacent
			lines = append(lines, l2, l1)
			p.expect(day, r.Cur, c13bCents(r.A), r.Cur2, c13bCents(-r.B))
			p.label("swissquote:row:" + kind)
			p.feature("fx")
		case kind == "Dividende" || kind == "Capital Gain" || kind == "Kapitalrückzahlung":
			net := r.A - r.B
			lines = append(lines, row("00000000", kind, r.Sym, r.T1, r.T2, "1.0", m2(r.A), m2(r.B), net, r.Cur))
			p.expect(day, r.Cur, c13bCents(net))
			p.label("swissquote:row:dividend")
			if r.B != 0 {
				p.feature("fee")
				p.label("swissquote:row:dividend-tax")
			}
		case kind == "Depotgebühren":
			lines = append(lines, row("00000000", kind, "", r.T1, "", "1.0", m2(r.A-r.B), m2(r.B), -r.A, r.Cur))
			p.expect(day, r.Cur, c13bCents(-r.A))
			p.label("swissquote:row:custody")
		case kind == "Einzahlung" || kind == "Vergütung":
			lines = append(lines, row("00000000", kind, "", r.T1, "", "1.0", m2(r.A), "0.00", r.A, r.Cur))
			p.expect(day, r.Cur, c13bCents(r.A))
			p.label("swissquote:row:transfer-in")
		case kind == "Auszahlung" || kind == "Belastung":
			lines = append(lines, row("00000000", kind, "", r.T1, "", "1.0", m2(r.A), "0.00", -r.A, r.Cur))
			p.expect(day, r.Cur, c13bCents(-r.A))
			p.label("swissquote:row:transfer-out")
		case kind == "Zins":
			v := r.A
			if r.F%2 == 1 {
				v = -v
			}
			lines = append(lines, row("00000000", kind, "", r.T1, "", "1.0", m2(r.A), "0.00", v, r.Cur))
			p.expect(day, r.Cur, c13bCents(v))
			p.label("swissquote:row:interest")
		default: // any other transaction type is booked with its net amount
			v := r.A
			if r.F%2 == 1 {
				v = -v
			}
			lines = append(lines, row("00000000", kind, "", r.T1, "", "1.0", m2(r.A), "0.00", v, r.Cur))
			p.expect(day, r.Cur, c13bCents(v))
			p.label("swissquote:row:other")
			p.text(kind)
		}
		p.booking++
		p.text(r.T1, r.T2)
	}
	var sb strings.Builder
	sb.WriteString("Datum;Auftrag #;Transaktionen;Symbol;Name;ISIN;Anzahl;Stückpreis;Kosten;Aufgelaufene Zinsen;Nettobetrag;Saldo;Währung\n")
	for i := len(lines) - 1; i >= 0; i-- {
		sb.WriteString(lines[i])
	}
	p.stmt = sb.String()
	return p
}

// ---------------------------------------------------------------- interactive brokers

// Sections emitted: Statement (BrokerName, BrokerAddress, Title, Period,
// WhenGenerated), Account Information (Name, Account Type, Base Currency), Open
// Positions (header, Summary rows, optional Lot rows, Total rows), Forex
// Balances (header, data, total), Trades (header per asset class, Order rows
// for Stocks and Forex, optional Trade/execution rows, SubTotal, Total),
// Deposits & Withdrawals (header, data, Total, Total in base), Dividends,
// Withholding Tax, Interest (each: header, data, Total lines), and a trailing
// Notes/Legal section.
func c13bPlanIB(c C13BCase) *c13bPlan {
	p := &c13bPlan{cmd: "us.interactivebrokers", args: []string{"--account", c13bAcct, "--interest", c13bInterest, "--dividend", c13bDividend,
		"--tax", c13bTax, "--fee", c13bFee, "--trading", c13bTrading}}
	base := c.Cur
	cash := map[string]int64{}
	pos := map[string]int64{}
	posCur := map[string]string{}
	var stocks, forex, deposits, dividends, wht, interest []string
	day := c.Base
	mc := func(v int64, variant int) string { // comma-separated or plain
		var s string
		if variant%2 == 0 {
			s = c13bMoney(v, ",")
		} else {
			s = c13bMoneyVar(v, variant/2, false)
		}
		p.sep(s)
		return s
	}
	for i, r := range c.Rows {
		if i > 0 {
			day += ref.Day(r.Gap)
		}
		stamp := day.String() + ", " + c13bClock(i)
		switch r.Kind {
		case "buy", "sell":
			q := r.Q
			if r.Kind == "sell" {
				q = -q
			}
			proceeds := -q * r.A
			qs := c13bInt(q, ",")
			p.sep(qs)
			price := c13bMoneyVar(r.A, r.F, false)
			stocks = append(stocks, c13bCSV(",", "Trades", "Data", "Order", "Stocks", r.Cur, r.Sym, stamp, qs, price, price, mc(proceeds, r.F), c13bMoneyVar(-r.B, r.F, false), mc(-proceeds, r.F), "0", "0", "40.425", "O"))
			if c.Noise {
				stocks = append(stocks, c13bCSV(",", "Trades", "Data", "Trade", "Stocks", r.Cur, r.Sym, stamp, qs, price, price, mc(proceeds, r.F), c13bMoneyVar(-r.B, r.F, false), mc(-proceeds, r.F), "0", "0", "40.425", "O"))
				stocks = append(stocks, c13bCSV(",", "Trades", "SubTotal", "", "Stocks", r.Cur, r.Sym, "", qs, "", "", mc(proceeds, r.F), c13bMoneyVar(-r.B, r.F, false), mc(-proceeds, r.F), "0", "0", "40.425", ""))
			}
			pos[r.Sym] += q
			posCur[r.Sym] = r.Cur
			cash[r.Cur] += proceeds - r.B
			p.expect(day, r.Sym, new(big.Rat).SetInt64(q), r.Cur, c13bCents(proceeds-r.B))
			p.feature("fee")
			p.label("ib:row:stock-" + r.Kind)
		case "fxbuy", "fxsell":
			q, proceeds := r.Q, -r.A
			if r.Kind == "fxsell" {
				q, proceeds = -r.Q, r.A
			}
			forex = append(forex, c13bCSV(",", "Trades", "Data", "Order", "Forex", r.Cur2, r.Cur+"."+r.Cur2, stamp, mc(q, r.F), "1.03371", "", mc(proceeds, r.F), c13bMoneyVar(-r.B, r.F, false), "", "", "", "3.446", ""))
			cash[r.Cur] += q
			cash[r.Cur2] += proceeds
			cash[base] -= r.B
			p.expect(day, r.Cur, c13bCents(q), r.Cur2, c13bCents(proceeds), base, c13bCents(-r.B))
			p.feature("fx")
			if r.B != 0 {
				p.feature("fee")
			}
			p.label("ib:row:forex-" + r.Kind)
		case "deposit", "withdrawal":
			v := r.A
			if r.Kind == "withdrawal" {
				v = -v
			}
			deposits = append(deposits, c13bCSV(",", "Deposits & Withdrawals", "Data", r.Cur, day.String(), r.T1, mc(v, r.F)))
			cash[r.Cur] += v
			p.expect(day, r.Cur, c13bCents(v))
			p.text(r.T1)
			p.label("ib:row:" + r.Kind)
		case "dividend":
			desc := r.Sym + "(US0378331005) Cash Dividend " + r.Cur + " 0.77 per Share (Ordinary Dividend)" + r.T1
			dividends = append(dividends, c13bCSV(",", "Dividends", "Data", r.Cur, day.String(), desc, mc(r.A, r.F)))
			cash[r.Cur] += r.A
			p.expect(day, r.Cur, c13bCents(r.A))
			p.text(r.T1 + "x")
			p.label("ib:row:dividend")
		case "wht":
			desc := r.Sym + "(US0378331005) Cash Dividend " + r.Cur + " 0.77 per Share - US Tax" + r.T1
			wht = append(wht, c13bCSV(",", "Withholding Tax", "Data", r.Cur, day.String(), desc, mc(-r.A, r.F), ""))
			cash[r.Cur] -= r.A
			p.expect(day, r.Cur, c13bCents(-r.A))
			p.text(r.T1 + "x")
			p.label("ib:row:wht")
		case "interest-credit", "interest-debit":
			v, word := r.A, "Credit"
			if r.Kind == "interest-debit" {
				v, word = -v, "Debit"
			}
			desc := r.Cur + " " + word + " Interest for Jun-2020" + r.T1
			interest = append(interest, c13bCSV(",", "Interest", "Data", r.Cur, day.String(), desc, mc(v, r.F)))
			cash[r.Cur] += v
			p.expect(day, r.Cur, c13bCents(v))
			p.text(r.T1 + "x")
			p.label("ib:row:" + r.Kind)
		}
		p.booking++
	}
	end := day + ref.Day(c.Tail)
	long := func(d ref.Day) string {
		y, m, dd := d.Civil()
		return fmt.Sprintf("%s %d, %d", c13bMonthsLong[m-1], dd, y)
	}
	var sb strings.Builder
	sb.WriteString("Statement,Header,Field Name,Field Value\n")
	sb.WriteString("Statement,Data,BrokerName,Interactive Brokers\n")
	sb.WriteString("Statement,Data,BrokerAddress,\n")
	sb.WriteString("Statement,Data,Title,Activity Statement\n")
	sb.WriteString(c13bCSV(",", "Statement", "Data", "Period", long(c.Base)+" - "+long(end)))
	sb.WriteString(c13bCSV(",", "Statement", "Data", "WhenGenerated", end.String()+", 10:11:12 EDT"))
	sb.WriteString("Account Information,Header,Field Name,Field Value\n")
	sb.WriteString(c13bCSV(",", "Account Information", "Data", "Name", c.Name))
	sb.WriteString("Account Information,Data,Account Type,Individual\n")
	sb.WriteString(c13bCSV(",", "Account Information", "Data", "Base Currency", base))
	p.text(c.Name)
	// open positions at the period end
	sb.WriteString("Open Positions,Header,DataDiscriminator,Asset Category,Currency,Symbol,Quantity,Mult,Cost Price,Cost Basis,Close Price,Value,Unrealized P/L,Unrealized P/L %,Code\n")
	syms := sortedKeys(pos)
	for _, s := range syms {
		if pos[s] == 0 {
			continue
		}
		q := fmt.Sprintf("%d", pos[s])
		sb.WriteString(c13bCSV(",", "Open Positions", "Data", "Summary", "Stocks", posCur[s], s, q, "1", "100.00", "100.00", "100.00", "100.00", "100.00", "100.00", ""))
		if c.Noise {
			sb.WriteString(c13bCSV(",", "Open Positions", "Data", "Lot", "Stocks", posCur[s], s, q, "1", "100.00", "100.00", "100.00", "100.00", "100.00", "100.00", ""))
			sb.WriteString(c13bCSV(",", "Open Positions", "Total", "", "Stocks", posCur[s], "", "", "", "", "100.00", "", "100.00", "100.00", "", ""))
		}
		p.asserts = append(p.asserts, c13bBal{end, s, new(big.Rat).SetInt64(pos[s])})
		p.label("ib:assert:position")
	}
	sb.WriteString("Forex Balances,Header,Asset Category,Currency,Description,Quantity,Cost Price,Cost Basis in " + base + ",Close Price,Value in " + base + ",Unrealized P/L in " + base + ",Code\n")
	for _, cur := range sortedKeys(cash) {
		if cash[cur] == 0 {
			continue
		}
		qs := c13bMoney(cash[cur], "")
		sb.WriteString(c13bCSV(",", "Forex Balances", "Data", "Forex", base, cur, qs, "1", "-"+qs, "1", qs, "0", ""))
		p.asserts = append(p.asserts, c13bBal{end, cur, c13bCents(cash[cur])})
		p.label("ib:assert:currency")
	}
	sb.WriteString(c13bCSV(",", "Forex Balances", "Total", "", "", "", "", "", "100.00", "", "100.00", "0", ""))
	if len(p.asserts) > 0 {
		p.feature("assert")
	}
	hdr := "DataDiscriminator,Asset Category,Currency,Symbol,Date/Time,Quantity,T. Price,C. Price,Proceeds,Comm/Fee,Basis,Realized P/L,Realized P/L %,MTM P/L,Code\n"
	if len(stocks) > 0 {
		sb.WriteString("Trades,Header," + hdr)
		sb.WriteString(strings.Join(stocks, ""))
		sb.WriteString("Trades,Total,,Stocks,USD,,,,,,-1.00,-1.00,0,0,,40.425,\n")
	}
	if len(forex) > 0 {
		sb.WriteString("Trades,Header," + strings.Replace(hdr, "Comm/Fee", "Comm in "+base, 1))
		sb.WriteString(strings.Join(forex, ""))
		sb.WriteString("Trades,Total,,Forex,USD,,,,,,449.38889,-1.1,,,,3.446,\n")
	}
	section := func(name string, rows []string, code bool) {
		if len(rows) == 0 {
			return
		}
		h := name + ",Header,Currency,Date,Description,Amount"
		tail := ""
		if code {
			h += ",Code"
			tail = ","
		}
		if name == "Deposits & Withdrawals" {
			h = name + ",Header,Currency,Settle Date,Description,Amount"
		}
		sb.WriteString(h + "\n")
		sb.WriteString(strings.Join(rows, ""))
		sb.WriteString(name + ",Data,Total,,,\"1,000.00\"" + tail + "\n")
		sb.WriteString(name + ",Data,Total in " + base + ",,,\"1,000.00\"" + tail + "\n")
		if name != "Deposits & Withdrawals" {
			sb.WriteString(name + ",Data,Total " + name + " in " + base + ",,,\"1,000.00\"" + tail + "\n")
		}
	}
	section("Deposits & Withdrawals", deposits, false)
	section("Dividends", dividends, false)
	section("Withholding Tax", wht, true)
	section("Interest", interest, false)
	sb.WriteString("Notes/Legal Notes,Header,Type,Note\n")
	sb.WriteString("Notes/Legal Notes,Data,Notes,\"1. Quantities, prices and amounts are as of the period end.\"\n")
	p.stmt = sb.String()
	return p
}

// ---------------------------------------------------------------- oracle

func c13bPlanOf(c C13BCase) *c13bPlan {
	switch c.Importer {
	case "revolut":
		return c13bPlanRevolut(c)
	case "revolut2":
		return c13bPlanRevolut2(c)
	case "wise":
		return c13bPlanWise(c)
	case "swissquote":
		return c13bPlanSwissquote(c)
	case "interactivebrokers":
		return c13bPlanIB(c)
	}
	return nil
}

func checkC13B(c C13BCase) (o Outcome) {
	p := c13bPlanOf(c)
	if p == nil {
		o.Violation = V("harness", "unknown importer %q", c.Importer)
		return o
	}
	imp := c.Importer
	o.Labels = append(o.Labels, "importer:"+imp)
	o.Labels = append(o.Labels, p.labels...)
	for _, f := range sortedKeys(p.features) {
		o.Labels = append(o.Labels, imp+":feature:"+f)
	}
	pos, neg := false, false
	for _, e := range p.exp {
		for _, q := range e.eff {
			if q.Sign() > 0 {
				pos = true
			} else if q.Sign() < 0 {
				neg = true
			}
		}
	}
	o.NonTrivial = p.booking >= 2 && pos && neg && len(p.features) > 0
	if o.NonTrivial {
		o.Labels = append(o.Labels, imp+":nontrivial")
	}
	o.Canon = imp + "\n" + p.stmt
	fail := func(v *Violation) Outcome {
		o.Violation = v.With("importer", imp)
		v.Msg += "\n--statement--\n" + clip(p.stmt, 3000)
		return o
	}

	dir, cleanup := knutio.Materialise(map[string]string{"stmt": p.stmt})
	defer cleanup()
	args := append(append([]string{"import", p.cmd}, p.args...), "stmt")

	// (1) the real binary
	r := knutio.Run(knutio.Opts{Dir: dir}, args...)
	o.Evals++
	if r.TimedOut || r.Signaled || r.Panicked() {
		return fail(V("crash", "knut %v: %s", args, r.Brief()))
	}
	if r.Exit != 0 {
		return fail(V("import-rejects-wellformed", "knut %v exits %d:\n%s", args, r.Exit, clip(r.Stderr, 800)))
	}
	if r.Stderr != "" {
		// the statement is about the emitted journal (stdout); a warning on stderr is recorded, not judged
		o.Labels = append(o.Labels, "stderr-on-success")
	}
	T := r.Stdout

	// (5) determinism: the same statement imported again gives the same bytes
	again := 1
	if p.multiDay {
		// Go starts the iteration of a small map at a random slot of an 8-slot
		// bucket: with two keys one order has probability ~0.78 per run
		again = 8
	}
	for i := 0; i < again; i++ {
		r2 := knutio.Run(knutio.Opts{Dir: dir}, args...)
		o.Evals++
		if r2.Stdout != T || r2.Exit != r.Exit {
			return fail(V("nondeterministic-output", "two imports of the same statement differ:\n--first--\n%s\n--second--\n%s", clip(T, 1500), clip(r2.Stdout, 1500)).
				With("multi_currency_day", fmt.Sprint(p.multiDay)))
		}
	}

	// (6) several statement files in one invocation: the same journal as the one statement they were cut from
	if len(p.split) == 2 {
		dir3, cleanup3 := knutio.Materialise(map[string]string{"a.csv": p.split[0], "b.csv": p.split[1]})
		margs := append(append([]string{"import", p.cmd}, p.args...), "a.csv", "b.csv")
		rm := knutio.Run(knutio.Opts{Dir: dir3}, margs...)
		cleanup3()
		o.Evals++
		o.Labels = append(o.Labels, imp+":two-files")
		if rm.TimedOut || rm.Signaled || rm.Panicked() {
			return fail(V("crash", "knut %v: %s", margs, rm.Brief()))
		}
		if rm.Exit != 0 || rm.Stdout != T {
			return fail(V("multi-file-differs", "knut %v (the rows of the statement dealt out over two files by whole days) exits %d and prints\n%s\n--the one-file import prints--\n%s\n--a.csv--\n%s\n--b.csv--\n%s",
				margs, rm.Exit, clip(rm.Stdout, 1500), clip(T, 1500), clip(p.split[0], 1200), clip(p.split[1], 1200)))
		}
	}

	// (4) the harness's own reader: per-row expectation
	ds, err := knutio.ParsePrinted(T)
	if err != nil {
		return fail(V("output-unreadable", "the importer's output is not in printed normal form: %v\n--output--\n%s", err, clip(T, 2000)))
	}
	accounts := map[string]bool{}
	var gotTrx, gotBal []string
	first := c.Base
	for _, d := range ds {
		if d.Date < first {
			first = d.Date
		}
		switch d.Kind {
		case ref.KTrx:
			eff := map[string]*big.Rat{}
			for _, b := range d.Bookings {
				accounts[b.Credit], accounts[b.Debit] = true, true
				q, ok := ref.ParseDec(b.Qty)
				if !ok {
					return fail(V("output-unreadable", "bad quantity %q", b.Qty))
				}
				if eff[b.Com] == nil {
					eff[b.Com] = ref.Zero()
				}
				if b.Debit == c13bAcct {
					eff[b.Com] = ref.Add(eff[b.Com], q)
				}
				if b.Credit == c13bAcct {
					eff[b.Com] = ref.Sub(eff[b.Com], q)
				}
			}
			gotTrx = append(gotTrx, c13bKey(d.Date, eff))
		case ref.KAssert:
			for _, b := range d.Balances {
				accounts[b.Account] = true
				q, ok := ref.ParseDec(b.Qty)
				if !ok {
					return fail(V("output-unreadable", "bad quantity %q", b.Qty))
				}
				gotBal = append(gotBal, fmt.Sprintf("%s %s %s %s", d.Date, b.Account, ref.DecString(q), b.Com))
			}
		default:
			return fail(V("unexpected-directive", "the importer emitted a %s directive on %s, which the statement does not carry\n--output--\n%s", d.Kind, d.Date, clip(T, 2000)).With("directive", d.Kind))
		}
	}
	var wantTrx, wantBal []string
	for _, e := range p.exp {
		wantTrx = append(wantTrx, c13bKey(e.date, e.eff))
	}
	for _, a := range p.asserts {
		wantBal = append(wantBal, fmt.Sprintf("%s %s %s %s", a.date, c13bAcct, ref.DecString(a.qty), a.com))
	}
	if missing, extra := c13bDiff(wantTrx, gotTrx); len(missing)+len(extra) > 0 {
		kind := "row-effect-mismatch"
		switch {
		case len(extra) == 0:
			kind = "row-dropped"
		case len(missing) == 0:
			kind = "row-extra"
		}
		return fail(V(kind, "effects on %s per transaction (date commodity:amount…) differ from the statement's booking rows (%d rows, %d transactions expected, %d emitted)\nexpected but not emitted: %v\nemitted but not expected: %v\n--output--\n%s",
			c13bAcct, p.booking, len(wantTrx), len(gotTrx), missing, extra, clip(T, 2500)))
	}
	if missing, extra := c13bDiff(wantBal, gotBal); len(missing)+len(extra) > 0 {
		return fail(V("assertion-mismatch", "balance assertions differ from the balances the statement carries\nexpected but not emitted: %v\nemitted but not expected: %v\n--output--\n%s",
			missing, extra, clip(T, 2500)))
	}

	// (2) opens + T is accepted by knut check, carried assertions included
	var opens strings.Builder
	for _, a := range sortedKeys(accounts) {
		fmt.Fprintf(&opens, "%s open %s\n", first-1, a)
	}
	journal := T
	if opens.Len() > 0 {
		journal = opens.String() + "\n" + T
	}
	dir2, cleanup2 := knutio.Materialise(map[string]string{"j.knut": journal})
	defer cleanup2()
	rc := knutio.Run(knutio.Opts{Dir: dir2}, "check", "j.knut")
	o.Evals++
	if rc.TimedOut || rc.Signaled || rc.Panicked() {
		return fail(V("crash", "knut check: %s", rc.Brief()))
	}
	if rc.Exit != 0 {
		kind := "check-rejects-import"
		if strings.Contains(rc.Stderr, "failed assertion") {
			kind = "carried-assertion-fails"
		}
		return fail(V(kind, "knut check of opens + import output exits %d:\n%s\n--journal--\n%s", rc.Exit, clip(rc.Stderr, 800), clip(journal, 2500)))
	}
	// (3) knut print reproduces it
	rp := knutio.Run(knutio.Opts{Dir: dir2}, "print", "j.knut")
	o.Evals++
	if rp.TimedOut || rp.Signaled || rp.Panicked() {
		return fail(V("crash", "knut print: %s", rp.Brief()))
	}
	if rp.Exit != 0 {
		return fail(V("print-rejects-import", "knut print of opens + import output exits %d:\n%s", rp.Exit, clip(rp.Stderr, 800)))
	}
	if rp.Stdout != journal {
		return fail(V("print-differs", "knut print does not reproduce the import output\n--import (after opens)--\n%s\n--print--\n%s", clip(journal, 2000), clip(rp.Stdout, 2000)))
	}
	return o
}

// c13bDiff compares two multisets of strings.
func c13bDiff(want, got []string) (missing, extra []string) {
	m := map[string]int{}
	for _, w := range want {
		m[w]++
	}
	for _, g := range got {
		if m[g] > 0 {
			m[g]--
		} else {
			extra = append(extra, g)
		}
	}
	for _, k := range sortedKeys(m) {
		for i := 0; i < m[k]; i++ {
			missing = append(missing, k)
		}
	}
	sort.Strings(extra)
	return
}

// ---------------------------------------------------------------- generators

var c13bCurrencies = []string{"CHF", "EUR", "USD", "GBP", "NZD", "AUD"}
var c13bSymbols = []string{"VWRL", "AAPL", "NESN", "CSSMI", "BRKB", "4GLD", "X1"}

var c13bAtoms = []string{
	"'", ";", ",", "\t", "@", "#", "*", "%", "\\", " ", "  ", "é", "ü", "€", "漢字", "🙂", "ß", "\u00a0", "\u200b", "//", "--", "/*",
	"a", "Zürich", "Café", "7", "0.50", "-", "_", "(", ")", ":", ".", "|", "$", "&", "<", ">", "=", "+", "!", "?", "`", "{", "}", "[", "]", "~", "^",
	"@performance(X)", "@accrue monthly", "2020-01-01", "balance", "open", "include", "Assets:Import", "1'000.00", "\\n",
	"\ufffd", "\ufeff", "\u2028",
}

func c13bText(t *rapid.T, label string) string {
	switch rapid.IntRange(0, 9).Draw(t, label+"Shape") {
	case 0:
		return ""
	case 1, 2, 3:
		return rapid.SampledFrom([]string{"Coop", "Migros Zurich", "Uber", "SBB CFF FFS", "Rocky Balboa", "Lake Taupo Resort", "Salary 2020", "Vanguard All World ETF Dist"}).Draw(t, label+"Plain")
	}
	atoms := c13bAtoms
	if c13bIncludeQuote {
		atoms = append(append([]string{}, atoms...), "\"", "\"\"", "a\"b", "\\\"")
	}
	atoms = append(append([]string{}, atoms...), "\n")
	parts := rapid.SliceOfN(rapid.SampledFrom(atoms), 1, 6).Draw(t, label)
	if gen.Rare(t, label+"Long", 4) {
		// several hundred bytes with multi-byte letters at every alignment
		n := rapid.IntRange(12, 40).Draw(t, label+"LongN")
		return strings.TrimSpace(strings.Join(parts, "") + " " + strings.Repeat(rapid.SampledFrom([]string{"Überweisung ", "Zürich-Örlikon ", "é", "Gebühr für März "}).Draw(t, label+"LongTok"), n))
	}
	return strings.Join(parts, "")
}

// c13bAmount draws a positive amount in 1/100 units: small, with thousands separators, round.
func c13bAmount(t *rapid.T, label string) int64 {
	switch rapid.IntRange(0, 5).Draw(t, label+"Shape") {
	case 0:
		return int64(rapid.IntRange(1, 99).Draw(t, label))
	case 1:
		return int64(rapid.IntRange(1, 99).Draw(t, label)) * 100
	case 2:
		return int64(rapid.IntRange(100000, 99999999).Draw(t, label))
	case 3:
		return int64(rapid.IntRange(100000000, 999999999).Draw(t, label)) // two separators
	case 4:
		return int64(rapid.IntRange(1, 50).Draw(t, label)) * 100000
	}
	return int64(rapid.IntRange(1, 99999).Draw(t, label))
}

func c13bGap(t *rapid.T) int {
	return rapid.SampledFrom([]int{0, 0, 0, 1, 1, 2, 5, 17, 31, 90}).Draw(t, "gap")
}

func c13bBase(t *rapid.T) ref.Day {
	y := rapid.IntRange(2012, 2022).Draw(t, "year")
	m := rapid.IntRange(1, 12).Draw(t, "month")
	d := rapid.IntRange(1, ref.DaysIn(y, m)).Draw(t, "day")
	return ref.FromCivil(y, m, d)
}

func c13bOther(t *rapid.T, cur, label string) string {
	var cs []string
	for _, c := range c13bCurrencies {
		if c != cur {
			cs = append(cs, c)
		}
	}
	return rapid.SampledFrom(cs).Draw(t, label)
}

func drawC13BRevolut(t *rapid.T) C13BCase {
	c := C13BCase{Importer: "revolut", Base: c13bBase(t), Cur: rapid.SampledFrom(c13bCurrencies).Draw(t, "cur")}
	var bal int64
	lo, hi := c13RowBounds(t, 12)
	c.Rows = rapid.SliceOfN(rapid.Custom(func(t *rapid.T) c13bRow {
		r := c13bRow{Kind: rapid.SampledFrom([]string{"out", "out", "out", "in", "in", "fxsell", "fxbuy"}).Draw(t, "kind"), Gap: c13bGap(t), A: c13bAmount(t, "a")}
		if (r.Kind == "out" || r.Kind == "fxsell") && bal < r.A { // a Revolut balance never goes negative
			if r.Kind == "out" {
				r.Kind = "in"
			} else {
				r.Kind = "fxbuy"
			}
		}
		switch r.Kind {
		case "out":
			bal -= r.A
		case "in":
			bal += r.A
		case "fxsell":
			bal -= r.A
			r.Cur2, r.B = c13bOther(t, c.Cur, "cur2"), c13bAmount(t, "b")
		case "fxbuy":
			bal += r.A
			r.Cur2, r.B = c13bOther(t, c.Cur, "cur2"), c13bAmount(t, "b")
		}
		if r.Kind == "out" || r.Kind == "in" {
			r.T1 = c13bText(t, "ref")
		}
		r.T2 = c13bText(t, "cat")
		return r
	}), lo, hi).Draw(t, "rows")
	return c
}

func drawC13BRevolut2(t *rapid.T) C13BCase {
	c := C13BCase{Importer: "revolut2", Base: c13bBase(t)}
	day := 0
	dayCur := map[int]string{}
	bal := map[string]int64{}
	multi := rapid.IntRange(0, 2).Draw(t, "multiCurrency") > 0
	cur0 := rapid.SampledFrom(c13bCurrencies).Draw(t, "cur")
	first := true
	lo, hi := c13RowBounds(t, 12)
	c.Rows = rapid.SliceOfN(rapid.Custom(func(t *rapid.T) c13bRow {
		r := c13bRow{Kind: rapid.SampledFrom([]string{"out", "out", "out", "in", "in", "pending"}).Draw(t, "kind"), Gap: c13bGap(t), A: c13bAmount(t, "a"), Cur: cur0}
		if !first {
			day += r.Gap
		}
		first = false
		if multi {
			r.Cur = rapid.SampledFrom(c13bCurrencies[:3]).Draw(t, "rowCur")
		}
		if rapid.IntRange(0, 3).Draw(t, "hasFee") == 0 {
			r.B = int64(rapid.IntRange(1, 2500).Draw(t, "fee"))
		}
		if r.Kind != "pending" {
			if have, ok := dayCur[day]; ok && have != r.Cur && c13bExcludeRevolut2MultiCurrencyDay {
				stats.Get("C13").Excluded("revolut2-multi-currency-day")
				r.Cur = have
			} else if !ok {
				dayCur[day] = r.Cur
			}
			if r.Kind == "out" && bal[r.Cur] < r.A+r.B { // the balance of a currency pocket never goes negative
				r.Kind = "in"
			}
			if r.Kind == "in" && r.B >= r.A {
				r.B = 0
			}
		}
		if r.Kind != "in" {
			r.A = -r.A
		}
		if r.Kind != "pending" {
			bal[r.Cur] += r.A - r.B
		}
		r.T1 = c13bText(t, "desc")
		r.T2 = rapid.SampledFrom([]string{"CARD_PAYMENT", "TOPUP", "EXCHANGE", "TRANSFER", "ATM", "FEE"}).Draw(t, "type")
		r.F = rapid.IntRange(0, 1).Draw(t, "startedEarlier")
		return r
	}), lo, hi).Draw(t, "rows")
	if rapid.IntRange(0, 2).Draw(t, "twinRow") == 0 {
		// two genuine, identical incoming payments on one day (same type, text, amount, fee, currency)
		var ins []int
		for i, r := range c.Rows {
			if r.Kind == "in" {
				ins = append(ins, i)
			}
		}
		if len(ins) > 0 {
			i := ins[rapid.IntRange(0, len(ins)-1).Draw(t, "twinOf")]
			twin := c.Rows[i]
			twin.Gap = 0
			c.Rows = append(c.Rows[:i+1:i+1], append([]c13bRow{twin}, c.Rows[i+1:]...)...)
		}
	}
	return c
}

func drawC13BWise(t *rapid.T) C13BCase {
	c := C13BCase{Importer: "wise", Base: c13bBase(t), Name: c13bText(t, "name"), Reverse: rapid.Bool().Draw(t, "reverse")}
	lo, hi := c13RowBounds(t, 10)
	c.Rows = rapid.SliceOfN(rapid.Custom(func(t *rapid.T) c13bRow {
		r := c13bRow{Kind: rapid.SampledFrom([]string{"out", "out", "in", "in", "out-cross", "neutral-cross", "cancelled"}).Draw(t, "kind"), Gap: c13bGap(t), A: c13bAmount(t, "a"),
			Cur: rapid.SampledFrom(c13bCurrencies).Draw(t, "cur"), F: rapid.IntRange(0, 11).Draw(t, "fmt")}
		if rapid.IntRange(0, 2).Draw(t, "hasFee") == 0 {
			r.B = int64(rapid.IntRange(1, 9999).Draw(t, "fee"))
		}
		if r.Kind == "out-cross" || r.Kind == "neutral-cross" {
			r.Cur2, r.Q = c13bOther(t, r.Cur, "cur2"), c13bAmount(t, "target")
		}
		r.T1 = c13bText(t, "target")
		r.T2 = c13bText(t, "reference")
		return r
	}), lo, hi).Draw(t, "rows")
	return c
}

func drawC13BSwissquote(t *rapid.T) C13BCase {
	c := C13BCase{Importer: "swissquote", Base: c13bBase(t)}
	kinds := []string{"Kauf", "Kauf", "Verkauf", "forex", "forex", "forex-comp", "Dividende", "Dividende", "Capital Gain", "Kapitalrückzahlung", "Depotgebühren",
		"Einzahlung", "Einzahlung", "Auszahlung", "Vergütung", "Belastung", "Zins", "other"}
	lo, hi := c13RowBounds(t, 10)
	c.Rows = rapid.SliceOfN(rapid.Custom(func(t *rapid.T) c13bRow {
		r := c13bRow{Kind: rapid.SampledFrom(kinds).Draw(t, "kind"), Gap: c13bGap(t), A: c13bAmount(t, "a"),
			Cur: rapid.SampledFrom(c13bCurrencies).Draw(t, "cur"), F: rapid.IntRange(0, 1).Draw(t, "variant")}
		switch r.Kind {
		case "Kauf", "Verkauf":
			r.Sym = rapid.SampledFrom(c13bSymbols).Draw(t, "sym")
			r.Q = int64(rapid.IntRange(1, 500).Draw(t, "qty"))
			r.A = int64(rapid.IntRange(1, 99999).Draw(t, "price"))
			r.B = int64(rapid.IntRange(0, 9999).Draw(t, "fee"))
			if r.Kind == "Verkauf" && r.Q*r.A <= r.B {
				r.B = 0
			}
			r.T1, r.T2 = c13bText(t, "name"), rapid.SampledFrom([]string{"IE00B3RBWM25", "CH0038863350", "US0378331005"}).Draw(t, "isin")
		case "forex", "forex-comp":
			r.Cur2, r.B = c13bOther(t, r.Cur, "cur2"), c13bAmount(t, "b")
		case "Dividende", "Capital Gain", "Kapitalrückzahlung":
			r.Sym = rapid.SampledFrom(c13bSymbols).Draw(t, "sym")
			if rapid.Bool().Draw(t, "taxed") && r.A > 1 {
				r.B = int64(rapid.IntRange(1, int(min(r.A-1, 999999))).Draw(t, "tax"))
			}
			r.T1, r.T2 = c13bText(t, "name"), rapid.SampledFrom([]string{"IE00B3RBWM25", "CH0038863350", "US0378331005"}).Draw(t, "isin")
		case "Depotgebühren":
			if r.A > 1 {
				r.B = int64(rapid.IntRange(0, int(min(r.A-1, 999))).Draw(t, "vat"))
			}
		case "other":
			if rapid.Bool().Draw(t, "hostileType") {
				r.Kind = c13bText(t, "type")
			} else {
				r.Kind = rapid.SampledFrom([]string{"Spesen Steuerauszug", "Fusion", "Titeleingang", "Berichtigung Börsengeb.", "Crypto Deposit"}).Draw(t, "type")
			}
			switch r.Kind { // must not collide with a named row kind
			case "Kauf", "Verkauf", "Forex-Gutschrift", "Forex-Belastung", "Fx-Gutschrift Comp.", "Fx-Belastung Comp.", "Capital Gain", "Kapitalrückzahlung", "Dividende",
				"Depotgebühren", "Einzahlung", "Auszahlung", "Vergütung", "Belastung", "Zins", "forex", "forex-comp":
				r.Kind = "Spesen"
			}
		}
		return r
	}), lo, hi).Draw(t, "rows")
	return c
}

func drawC13BIB(t *rapid.T) C13BCase {
	c := C13BCase{Importer: "interactivebrokers", Base: c13bBase(t), Cur: rapid.SampledFrom(c13bCurrencies).Draw(t, "base"),
		Name: c13bText(t, "name"), Tail: rapid.SampledFrom([]int{0, 0, 1, 30}).Draw(t, "tail"), Noise: rapid.Bool().Draw(t, "noise")}
	pos := map[string]int64{}
	symCur := map[string]string{}
	kinds := []string{"buy", "buy", "sell", "fxbuy", "fxsell", "deposit", "deposit", "withdrawal", "dividend", "wht", "interest-credit", "interest-debit"}
	lo, hi := c13RowBounds(t, 10)
	c.Rows = rapid.SliceOfN(rapid.Custom(func(t *rapid.T) c13bRow {
		r := c13bRow{Kind: rapid.SampledFrom(kinds).Draw(t, "kind"), Gap: c13bGap(t), Cur: rapid.SampledFrom(c13bCurrencies).Draw(t, "cur"), F: rapid.IntRange(0, 5).Draw(t, "fmt")}
		switch r.Kind {
		case "buy", "sell":
			r.Sym = rapid.SampledFrom(c13bSymbols).Draw(t, "sym")
			if r.Kind == "sell" && pos[r.Sym] == 0 { // prefer a symbol that is held
				for _, s := range c13bSymbols {
					if pos[s] > 0 {
						r.Sym = s
						break
					}
				}
			}
			if cur, ok := symCur[r.Sym]; ok {
				r.Cur = cur // a symbol trades in one currency
			}
			symCur[r.Sym] = r.Cur
			r.Q = int64(rapid.SampledFrom([]int{1, 7, 10, 100, 250, 999, 1000, 1200, 2500}).Draw(t, "qty"))
			if r.Kind == "sell" { // no short positions
				if pos[r.Sym] == 0 {
					r.Kind = "buy"
				} else if pos[r.Sym] < r.Q {
					r.Q = pos[r.Sym]
				}
			}
			if r.Kind == "buy" {
				pos[r.Sym] += r.Q
			} else {
				pos[r.Sym] -= r.Q
			}
			r.A = int64(rapid.IntRange(1, 99999).Draw(t, "price"))
			r.B = int64(rapid.IntRange(0, 9999).Draw(t, "fee"))
		case "fxbuy", "fxsell":
			r.Cur2 = c13bOther(t, r.Cur, "cur2")
			r.Q, r.A = c13bAmount(t, "qty"), c13bAmount(t, "proceeds")
			if rapid.Bool().Draw(t, "hasFee") {
				r.B = int64(rapid.IntRange(1, 999).Draw(t, "fee"))
			}
		case "deposit", "withdrawal":
			r.A, r.T1 = c13bAmount(t, "a"), c13bText(t, "desc")
		case "dividend", "wht":
			r.Sym = rapid.SampledFrom(c13bSymbols).Draw(t, "sym")
			r.A = int64(rapid.IntRange(1, 999999).Draw(t, "a"))
			if rapid.Bool().Draw(t, "suffix") {
				r.T1 = c13bText(t, "desc")
			}
		default:
			r.A = int64(rapid.IntRange(1, 99999).Draw(t, "a"))
			if rapid.Bool().Draw(t, "suffix") {
				r.T1 = c13bText(t, "desc")
			}
		}
		return r
	}), lo, hi).Draw(t, "rows")
	return c
}

func TestC13B_Revolut(t *testing.T) { runProp(t, "C13", "revolut", drawC13BRevolut, checkC13B) }
func TestC13B_Revolut2(t *testing.T) {
	runProp(t, "C13", "revolut2", drawC13BRevolut2, checkC13B)
}
func TestC13B_Wise(t *testing.T) { runProp(t, "C13", "wise", drawC13BWise, checkC13B) }
func TestC13B_Swissquote(t *testing.T) {
	runProp(t, "C13", "swissquote", drawC13BSwissquote, checkC13B)
}
func TestC13B_InteractiveBrokers(t *testing.T) {
	runProp(t, "C13", "interactivebrokers", drawC13BIB, checkC13B)
}

// c13RowBounds: statements normally have 1..max rows; one in twelve is long (40-120 rows), so that the
// emitted journal exceeds the 4 KiB of a default bufio.Writer and a statement line count above any small buffer.
func c13RowBounds(t *rapid.T, max int) (int, int) {
	if rapid.IntRange(0, 11).Draw(t, "manyRows") == 0 {
		n := rapid.IntRange(40, 120).Draw(t, "nManyRows")
		return n, n
	}
	return 1, max
}
