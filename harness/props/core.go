// Package props holds one generated-input property per claimed knut
// property (cXX_test.go), the replay/corpus entry points and the shared
// plumbing (violations, known findings, evidence).
package props

import (
	"encoding/json"
	"fmt"
	"os"
	"path/filepath"
	"runtime"
	"sort"
	"strings"
	"sync"
	"time"

	"verifharness/stats"
)

// Violation describes one deviation from a property.
type Violation struct {
	Kind   string            `json:"kind"`
	Msg    string            `json:"msg"`
	Detail map[string]string `json:"detail,omitempty"`
}

func V(kind, format string, a ...any) *Violation {
	return &Violation{Kind: kind, Msg: fmt.Sprintf(format, a...), Detail: map[string]string{}}
}

func (v *Violation) With(k, val string) *Violation {
	if v.Detail == nil {
		v.Detail = map[string]string{}
	}
	v.Detail[k] = val
	return v
}

// Outcome of evaluating one case.
type Outcome struct {
	Violation  *Violation
	NonTrivial bool
	Canon      string // canonical text for distinctness; defaults to JSON of the case
	Labels     []string
	Evals      int // knut invocations / extra evaluations inside this case
}

// ReplayFile is the on-disk form of a (shrunk) failing case and of corpus entries.
type ReplayFile struct {
	Property  string          `json:"property"`
	Oracle    string          `json:"oracle,omitempty"`
	Seed      string          `json:"seed,omitempty"`
	Tier      string          `json:"tier,omitempty"`
	Case      json.RawMessage `json:"case"`
	Violation *Violation      `json:"violation,omitempty"`
	Note      string          `json:"note,omitempty"`
}

// Finding is one entry of /verif/known_findings.json.
type Finding struct {
	Status   string            `json:"status"` // open | fixed
	Property string            `json:"property"`
	ID       string            `json:"id"`
	Kind     string            `json:"kind"`
	Params   map[string]string `json:"params,omitempty"`
	What     string            `json:"what"`
	Commit   string            `json:"commit,omitempty"`
}

var (
	findingsOnce sync.Once
	findings     []Finding
)

func verifDir() string {
	if d := os.Getenv("VERIF_DIR"); d != "" {
		return d
	}
	return "/verif"
}

func loadFindings() []Finding {
	findingsOnce.Do(func() {
		b, err := os.ReadFile(filepath.Join(verifDir(), "known_findings.json"))
		if err != nil {
			return
		}
		if err := json.Unmarshal(b, &findings); err != nil {
			panic("known_findings.json: " + err.Error())
		}
	})
	return findings
}

// MatchKnown returns the id of the open known finding that accepts exactly
// this deviation: same property, same kind, and every param equal to the
// violation's detail of the same name. Fixed entries suppress nothing.
func MatchKnown(prop string, v *Violation) (string, bool) {
	for _, f := range loadFindings() {
		if f.Status != "open" || f.Property != prop || f.Kind != v.Kind {
			continue
		}
		ok := true
		for k, want := range f.Params {
			if v.Detail[k] != want {
				ok = false
				break
			}
		}
		if ok {
			return f.ID, true
		}
	}
	return "", false
}

// Failer is the subset of *rapid.T / *testing.T used to report.
type Failer interface {
	Fatalf(format string, args ...any)
	Logf(format string, args ...any)
}

// Report handles a violation: known findings are counted and do not fail;
// anything else writes the replay file and fails the (rapid) test.
func Report(t Failer, prop, oracle string, c any, v *Violation) {
	if v == nil {
		return
	}
	rec := stats.Get(prop)
	if id, ok := MatchKnown(prop, v); ok {
		rec.Known(id)
		return
	}
	if isHang(v) {
		// every re-evaluation of a hanging case costs the full timeout again: no shrinking, stop at once
		abandon(prop, oracle, c, v)
	}
	rec.Violation()
	path := writeReplay(prop, oracle, c, v)
	t.Fatalf("VIOLATION property=%s replay=%s\nkind=%s\n%s", prop, path, v.Kind, v.Msg)
}

func writeReplay(prop, oracle string, c any, v *Violation) string {
	raw, err := json.Marshal(c)
	if err != nil {
		raw = []byte(fmt.Sprintf("%q", fmt.Sprint(c)))
	}
	rf := ReplayFile{
		Property:  prop,
		Oracle:    oracle,
		Seed:      os.Getenv("VERIF_SHARD_SEED"),
		Tier:      os.Getenv("VERIF_TIER"),
		Case:      raw,
		Violation: v,
	}
	b, _ := json.MarshalIndent(rf, "", " ")
	path := os.Getenv("VERIF_REPLAY_OUT")
	if path == "" {
		path = filepath.Join(os.TempDir(), fmt.Sprintf("replay-%s-%d.json", prop, os.Getpid()))
	}
	os.MkdirAll(filepath.Dir(path), 0o755)
	os.WriteFile(path, b, 0o644)
	return path
}

// Replayer re-evaluates a recorded case without rapid.
type Replayer func(raw json.RawMessage) (*Violation, error)

var replayers = map[string]Replayer{}

// Register makes check the replay function of (prop, oracle) for cases of type C.
func Register[C any](prop, oracle string, check func(C) Outcome) {
	replayers[prop+"/"+oracle] = func(raw json.RawMessage) (*Violation, error) {
		var c C
		if err := json.Unmarshal(raw, &c); err != nil {
			return nil, err
		}
		return check(c).Violation, nil
	}
}

// Record feeds the evidence recorder.
func Record(prop string, c any, o Outcome) {
	canon := o.Canon
	if canon == "" {
		b, _ := json.Marshal(c)
		canon = string(b)
	}
	rec := stats.Get(prop)
	rec.Case(canon, o.NonTrivial, func() any { return c }, o.Labels...)
	if o.Evals > 0 {
		rec.Eval(o.Evals)
	}
}

func sortedKeys[V any](m map[string]V) []string {
	ks := make([]string, 0, len(m))
	for k := range m {
		ks = append(ks, k)
	}
	sort.Strings(ks)
	return ks
}

func tier() string {
	if t := os.Getenv("VERIF_TIER"); t != "" {
		return t
	}
	return "quick"
}

func thorough() bool { return tier() == "thorough" }

func clip(s string, n int) string {
	if len(s) <= n {
		return s
	}
	return s[:n] + "…"
}

func indent(s string) string {
	return "    " + strings.ReplaceAll(s, "\n", "\n    ")
}

// Guard runs f (a call into knut library code) under a watchdog: a panic is
// returned; a call that does not return within budget, or that drives the
// heap beyond 3 GB, cannot be abandoned safely in-process (the goroutine keeps
// running), so the case is written out as a replay file and the process exits
// at once with a VIOLATION line (no shrinking).
func Guard(prop, oracle string, c any, budget time.Duration, f func()) (panicked any) {
	done := make(chan any, 1)
	go func() {
		defer func() { done <- recover() }()
		f()
	}()
	deadline := time.After(budget)
	tick := time.NewTicker(200 * time.Millisecond)
	defer tick.Stop()
	for {
		select {
		case p := <-done:
			return p
		case <-deadline:
			abandon(prop, oracle, c, V("hang", "library call did not return within %s", budget))
		case <-tick.C:
			var ms runtime.MemStats
			runtime.ReadMemStats(&ms)
			if ms.HeapAlloc > 3<<30 {
				abandon(prop, oracle, c, V("memory", "library call drove the heap to %d MB", ms.HeapAlloc>>20))
			}
		}
	}
}

// isHang: the violation was observed through a run that did not finish (whatever kind the check gives it).
func isHang(v *Violation) bool {
	return v != nil && (strings.Contains(v.Kind, "hang") || strings.Contains(v.Msg, "timedout=true"))
}

func abandon(prop, oracle string, c any, v *Violation) {
	if id, ok := MatchKnown(prop, v); ok {
		stats.Get(prop).Known(id)
		stats.Get(prop).Note("abandoned process on known finding " + id)
		stats.FlushAll()
		fmt.Printf("KNOWN-FINDING-SEEN: property=%s id=%s (process abandoned)\n", prop, id)
		os.Exit(3)
	}
	stats.Get(prop).Violation()
	path := writeReplay(prop, oracle, c, v)
	stats.FlushAll()
	fmt.Printf("VIOLATION property=%s replay=%s\nkind=%s\n%s\n", prop, path, v.Kind, v.Msg)
	os.Exit(1)
}

// Shrinker proposes smaller variants of a failing case (property-specific,
// structural: drop a directive, a booking, a flag). The driver runs
// TestMinimise on each replay file after the rapid run: greedy descent that
// keeps a candidate when it still violates the property with the same kind.
type shrinkFn func(raw json.RawMessage) ([]json.RawMessage, error)

var shrinkers = map[string]shrinkFn{}

func RegisterShrinker[C any](prop, oracle string, cands func(C) []C) {
	shrinkers[prop+"/"+oracle] = func(raw json.RawMessage) ([]json.RawMessage, error) {
		var c C
		if err := json.Unmarshal(raw, &c); err != nil {
			return nil, err
		}
		var out []json.RawMessage
		for _, x := range cands(c) {
			b, err := json.Marshal(x)
			if err != nil {
				return nil, err
			}
			out = append(out, b)
		}
		return out, nil
	}
}

// Minimise performs the greedy descent on a replay file and rewrites it.
func Minimise(path string, budget int) (string, error) {
	b, err := os.ReadFile(path)
	if err != nil {
		return "", err
	}
	var rf ReplayFile
	if err := json.Unmarshal(b, &rf); err != nil {
		return "", err
	}
	key := rf.Property + "/" + rf.Oracle
	sh, ok := shrinkers[key]
	rp, ok2 := replayers[key]
	if !ok || !ok2 {
		return "no shrinker", nil
	}
	if isHang(rf.Violation) {
		return "a hang: not minimised (every evaluation costs the full timeout)", nil
	}
	v0, err := rp(rf.Case)
	if err != nil || v0 == nil {
		return "not reproducible, left as is", err
	}
	cur, curV := rf.Case, v0
	evals, steps := 0, 0
	// also bounded in time (large cases): what is reached by then is kept; the verdict does not depend on it
	deadline := time.Now().Add(75 * time.Second)
	for progress := true; progress && evals < budget && time.Now().Before(deadline); {
		progress = false
		cands, err := sh(cur)
		if err != nil {
			return "", err
		}
		for _, cand := range cands {
			if evals >= budget || time.Now().After(deadline) {
				break
			}
			evals++
			v, err := rp(cand)
			if err != nil || v == nil || v.Kind != curV.Kind {
				continue
			}
			if len(cand) >= len(cur) {
				continue
			}
			cur, curV, progress = cand, v, true
			steps++
			break
		}
	}
	rf.Case, rf.Violation = cur, curV
	rf.Note = fmt.Sprintf("minimised structurally after rapid's shrink: %d steps, %d evaluations", steps, evals)
	out, _ := json.MarshalIndent(rf, "", " ")
	if err := os.WriteFile(path, out, 0o644); err != nil {
		return "", err
	}
	return rf.Note, nil
}

func writeFile(dir, name, content string) error {
	return os.WriteFile(filepath.Join(dir, name), []byte(content), 0o644)
}
