//go:build !no_c04

package props

import (
	"fmt"
	"strings"
	"testing"

	"pgregory.net/rapid"

	"verifharness/gen"
	"verifharness/knutio"
	"verifharness/ref"
)

// C04 — check accepts exactly the well-formed journals.

type C04Case struct {
	Directives []ref.Directive `json:"directives"` // in file order
	Text       string          `json:"text"`
	Damages    []string        `json:"damages,omitempty"`
}

func init() {
	Register("C04", "lifecycle", checkC04)
	RegisterShrinker("C04", "lifecycle", func(c C04Case) []C04Case {
		var out []C04Case
		for _, ds := range shrinkDirectives(c.Directives) {
			out = append(out, C04Case{Directives: ds, Text: ref.RenderAll(ds), Damages: c.Damages})
		}
		return out
	})
}

func checkC04(c C04Case) (o Outcome) {
	verdict := ref.Lifecycle(c.Directives)
	dir, cleanup := knutio.Materialise(map[string]string{"j.knut": c.Text})
	defer cleanup()
	o.Labels = append(o.Labels, fmt.Sprintf("accepted:%v", verdict.OK))
	for _, d := range c.Damages {
		o.Labels = append(o.Labels, "damage:"+d)
	}
	if verdict.SameDay {
		o.Labels = append(o.Labels, "same-day")
	}
	nDamage := 0
	for _, d := range c.Damages {
		if d != "none" && d != "shuffle" {
			nDamage++
		}
	}
	single := nDamage == 1 && !verdict.OK
	o.NonTrivial = verdict.SameDay || single
	cmds := [][]string{{"check", "j.knut"}, {"print", "j.knut"}, {"balance", "--color=false", "j.knut"}, {"check", "--write", "j.knut"}}
	for i, args := range cmds {
		r := knutio.Run(knutio.Opts{Dir: dir}, args...)
		o.Evals++
		if r.TimedOut || r.Signaled || r.Panicked() {
			o.Violation = V("crash", "knut %v: %s", args, r.Brief()).With("cmd", args[0])
			return o
		}
		if verdict.OK && r.Exit != 0 {
			o.Violation = V("rejects-wellformed", "reference accepts the journal, knut %s exits %d:\n%s\n--journal--\n%s", args[0], r.Exit, clip(r.Stderr, 800), clip(c.Text, 2500)).
				With("cmd", args[0]).With("why", classifyReject(r.Stderr))
			return o
		}
		if !verdict.OK {
			if r.Exit == 0 {
				o.Violation = V("accepts-illformed", "reference rejects (%s, directive %d of %s on %s), knut %s exits 0\n--journal--\n%s",
					verdict.Reason, verdict.Src, verdict.Account, verdict.Date, args[0], clip(c.Text, 2500)).With("cmd", args[0]).With("reason", verdict.Reason)
				return o
			}
			if strings.TrimSpace(r.Stderr) == "" {
				o.Violation = V("no-diagnostic", "knut %s exits %d without a diagnostic", args[0], r.Exit).With("cmd", args[0])
				return o
			}
			if r.Stdout != "" {
				o.Violation = V("stdout-on-failure", "knut %s fails but prints to stdout: %q", args[0], clip(r.Stdout, 200)).With("cmd", args[0])
				return o
			}
			if i == 0 && single {
				// the diagnostic names the offending directive: its date and the account concerned
				if !strings.Contains(r.Stderr, verdict.Date.String()) || (verdict.Account != "" && !strings.Contains(r.Stderr, verdict.Account)) {
					o.Violation = V("diagnostic-misses-directive", "offending directive: %s on %s (%s); stderr:\n%s\n--journal--\n%s",
						verdict.Account, verdict.Date, verdict.Reason, clip(r.Stderr, 800), clip(c.Text, 2500))
					return o
				}
			}
		}
	}
	return o
}

func classifyReject(stderr string) string {
	switch {
	case strings.Contains(stderr, "failed assertion"):
		return "failed assertion"
	case strings.Contains(stderr, "is not open"):
		return "not open"
	case strings.Contains(stderr, "already open"):
		return "already open"
	case strings.Contains(stderr, "nonzero position"):
		return "nonzero position"
	}
	return "other"
}

func drawC04(t *rapid.T) C04Case {
	cfg := gen.HistCfg{
		MaxActions: rapid.SampledFrom([]int{4, 8, 15, 30}).Draw(t, "maxActions"),
		Accruals:   rapid.IntRange(0, 3).Draw(t, "accruals") == 0,
		Assertions: true, Closes: true,
		Prices:    rapid.SampledFrom([]int{0, 0, 1}).Draw(t, "prices"),
		MaxDec:    rapid.SampledFrom([]int{2, 4, 8}).Draw(t, "maxDec"),
		Unicode:   rapid.IntRange(0, 4).Draw(t, "unicode") == 0,
		WideDates: true,
	}
	gen.MaybeLarge(t, &cfg, 4)
	j := gen.GenJournal(t, cfg)
	var c C04Case
	nd := rapid.SampledFrom([]int{0, 0, 1, 1, 1, 2}).Draw(t, "nDamage")
	c.Damages = gen.Damage(t, &j, nd)
	if rapid.IntRange(0, 2).Draw(t, "shuffle") == 0 {
		j.Directives = gen.Shuffle(t, j.Directives)
		c.Damages = append(c.Damages, "shuffle")
	}
	c.Directives = j.Directives
	if rapid.IntRange(0, 3).Draw(t, "noisy") == 0 {
		c.Text = gen.RenderNoisy(t, j.Directives)
	} else {
		c.Text = ref.RenderAll(j.Directives)
	}
	return c
}

func TestC04(t *testing.T) {
	runProp(t, "C04", "lifecycle", drawC04, checkC04)
}
