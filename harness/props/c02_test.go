//go:build !no_c02

package props

import (
	"fmt"
	"math/big"
	"sort"
	"strings"
	"testing"

	"pgregory.net/rapid"

	"verifharness/gen"
	"verifharness/knutio"
	"verifharness/ref"
)

// C02 — the unvalued balance report equals an independent ledger computation.

type C02Case struct {
	Directives []ref.Directive `json:"directives"`
	Text       string          `json:"text"`
	Flags      gen.BalFlags    `json:"flags"`
}

func init() {
	Register("C02", "ledger-cells", checkC02)
	RegisterShrinker("C02", "ledger-cells", func(c C02Case) []C02Case {
		var out []C02Case
		for _, ds := range shrinkDirectives(c.Directives) {
			out = append(out, C02Case{Directives: ds, Text: ref.RenderAll(ds), Flags: c.Flags})
		}
		for _, f := range shrinkFlags(c.Flags) {
			out = append(out, C02Case{Directives: c.Directives, Text: c.Text, Flags: f})
		}
		return out
	})
}

func ledgerFlags(f gen.BalFlags) ref.LedgerFlags {
	lf := ref.LedgerFlags{From: f.From, To: f.To, Interval: ref.Interval(f.Interval), Last: f.Last, Diff: f.Diff, Close: !f.NoClose,
		AccountRes: f.Accounts, CommodityRes: f.Commodities, Remap: f.Remap}
	for _, m := range f.Mappings {
		lf.Mappings = append(lf.Mappings, ref.MapRule{Level: m.Level, Suffix: m.Suffix, Regex: m.Regex, HasRe: m.HasRe})
	}
	return lf
}

// compareLedger returns "" when the observed table equals the expectation.
func compareLedger(tbl *knutio.BalanceTable, L *ref.Ledger) (kind, msg string) {
	var want []string
	for _, d := range L.Columns {
		want = append(want, d.String())
	}
	if strings.Join(tbl.Dates, ",") != strings.Join(want, ",") {
		return "columns", fmt.Sprintf("column headers %v, expected %v", tbl.Dates, want)
	}
	n := len(want)
	obs := map[string]map[string][]*big.Rat{}
	rows := map[string]bool{}
	totals := map[string]map[string][]*big.Rat{"TotalAL": {}, "TotalEIE": {}, "Delta": {}}
	for _, r := range tbl.Rows {
		vals := make([]*big.Rat, n)
		for i := 0; i < n; i++ {
			v, err := r.Value(i)
			if err != nil {
				return "unreadable", err.Error()
			}
			vals[i] = v
		}
		switch r.Section {
		case "AL", "EIE":
			acc := r.Account()
			if r.Name != "" {
				if rows[acc] {
					return "duplicate-row", fmt.Sprintf("account %s appears twice", acc)
				}
				rows[acc] = true
				if (r.Section == "AL") != ref.IsAL(acc) {
					return "wrong-section", fmt.Sprintf("account %s is shown in section %s", acc, r.Section)
				}
			}
			if r.Comm == "" {
				continue
			}
			if obs[acc] == nil {
				obs[acc] = map[string][]*big.Rat{}
			}
			if obs[acc][r.Comm] != nil {
				return "duplicate-row", fmt.Sprintf("account %s has two lines for %s", acc, r.Comm)
			}
			obs[acc][r.Comm] = vals
		default:
			if r.Comm != "" {
				totals[r.Section][r.Comm] = vals
			}
		}
	}
	zero := func() []*big.Rat {
		z := make([]*big.Rat, n)
		for i := range z {
			z[i] = new(big.Rat)
		}
		return z
	}
	cmp := func(what string, exp, got map[string][]*big.Rat) (string, string) {
		keys := map[string]bool{}
		for k := range exp {
			keys[k] = true
		}
		for k := range got {
			keys[k] = true
		}
		var ks []string
		for k := range keys {
			ks = append(ks, k)
		}
		sort.Strings(ks)
		for _, com := range ks {
			e, g := exp[com], got[com]
			if e == nil {
				e = zero()
			}
			if g == nil {
				g = zero()
			}
			for i := 0; i < n; i++ {
				if e[i].Cmp(g[i]) != 0 {
					return "cell-mismatch", fmt.Sprintf("%s / %s / column %s: shown %s, expected %s", what, com, want[i], ref.DecString(g[i]), ref.DecString(e[i]))
				}
			}
		}
		return "", ""
	}
	accs := map[string]bool{}
	for a := range L.Cells {
		accs[a] = true
	}
	for a := range obs {
		accs[a] = true
	}
	var as []string
	for a := range accs {
		as = append(as, a)
	}
	sort.Strings(as)
	for _, a := range as {
		if k, m := cmp(a, L.Cells[a], obs[a]); k != "" {
			return k, m
		}
	}
	// row set
	var missing, extra []string
	for a := range L.Rows {
		if !rows[a] {
			missing = append(missing, a)
		}
	}
	for a := range rows {
		if !L.Rows[a] {
			extra = append(extra, a)
		}
	}
	sort.Strings(missing)
	sort.Strings(extra)
	if len(missing)+len(extra) > 0 {
		return "row-set", fmt.Sprintf("rows missing %v, unexpected %v", missing, extra)
	}
	if k, m := cmp("Total (A+L)", L.TotalAL, totals["TotalAL"]); k != "" {
		return "total-mismatch", m
	}
	if k, m := cmp("Total (E+I+E)", L.TotalEIE, totals["TotalEIE"]); k != "" {
		return "total-mismatch", m
	}
	if k, m := cmp("Delta", L.Delta, totals["Delta"]); k != "" {
		return "delta-mismatch", m
	}
	return "", ""
}

func checkC02(c C02Case) (o Outcome) {
	f := c.Flags
	o.Labels = []string{"iv:" + ref.Interval(f.Interval).String(), fmt.Sprintf("diff:%v", f.Diff), fmt.Sprintf("close:%v", !f.NoClose),
		fmt.Sprintf("last:%v", f.Last != 0), fmt.Sprintf("mapping:%v", len(f.Mappings) > 0), fmt.Sprintf("remap:%v", len(f.Remap) > 0),
		fmt.Sprintf("accfilter:%v", len(f.Accounts) > 0), fmt.Sprintf("comfilter:%v", len(f.Commodities) > 0), fmt.Sprintf("window:%v", f.From != nil || f.To != nil)}
	for _, m := range f.Mappings {
		if m.Level == 0 {
			o.Labels = append(o.Labels, "mapping:level0")
		}
		if m.Suffix > 0 {
			o.Labels = append(o.Labels, "mapping:suffix")
		}
	}
	ts, _ := ref.ExpandAll(c.Directives)
	if len(ts) == 0 {
		o.Labels = append(o.Labels, "no-transactions")
		return o
	}
	dir, cleanup := knutio.Materialise(map[string]string{"j.knut": c.Text})
	defer cleanup()
	args := append(append([]string{"balance"}, f.Args()...), "j.knut")
	r := knutio.Run(knutio.Opts{Dir: dir}, args...)
	o.Evals = 1
	if r.TimedOut || r.Signaled || r.Panicked() {
		o.Violation = V("crash", "knut %v: %s\n--journal--\n%s", args, r.Brief(), clip(c.Text, 2000))
		return o
	}
	if r.Exit != 0 {
		o.Labels = append(o.Labels, "knut-rejected")
		return o
	}
	tbl, err := knutio.ParseBalanceText(r.Stdout)
	if err != nil {
		o.Violation = V("unreadable-report", "knut %v: %v\n%s", args, err, clip(r.Stdout, 1500))
		return o
	}
	lf := ledgerFlags(f)
	L, err := ref.ComputeLedger(c.Directives, lf)
	if err != nil {
		panic("harness: " + err.Error())
	}
	kind, msg := compareLedger(tbl, L)
	if kind != "" && len(f.Remap) > 0 && len(f.Mappings) > 0 {
		// the statement does not fix the order of --remap and -m: accept either
		lf.MapBeforeRemap = true
		L2, _ := ref.ComputeLedger(c.Directives, lf)
		if k2, _ := compareLedger(tbl, L2); k2 == "" {
			kind = ""
			o.Labels = append(o.Labels, "order-ambiguous-accepted")
		}
	}
	if kind != "" {
		o.Violation = V(kind, "knut %v\n%s\n%s\n--journal--\n%s", args, msg, clip(r.Stdout, 3500), clip(c.Text, 3000))
		return o
	}
	active := len(f.Mappings) > 0 || len(f.Remap) > 0 || len(f.Accounts) > 0 || len(f.Commodities) > 0 || f.Diff || f.Last != 0 ||
		(len(L.Columns) >= 2 && !f.NoClose)
	o.NonTrivial = L.InWindowBookings >= 3 && L.NonZeroCells >= 2 && active
	if L.Closings > 0 {
		o.Labels = append(o.Labels, "closing-carried")
	}
	return o
}

func drawC02(t *rapid.T) C02Case {
	cfg := gen.HistCfg{
		MaxActions: rapid.SampledFrom([]int{6, 12, 25, 40}).Draw(t, "maxActions"),
		Accruals:   rapid.IntRange(0, 2).Draw(t, "accruals") == 0,
		Assertions: rapid.Bool().Draw(t, "assertions"), Closes: true,
		Prices:    rapid.SampledFrom([]int{0, 0, 1}).Draw(t, "prices"),
		MaxDec:    rapid.SampledFrom([]int{2, 4, 8, 12}).Draw(t, "maxDec"),
		Unicode:   rapid.IntRange(0, 5).Draw(t, "unicode") == 0,
		WideDates: true,
	}
	gen.MaybeLarge(t, &cfg, 4)
	j := gen.GenJournal(t, cfg)
	if rapid.IntRange(0, 3).Draw(t, "shuffle") == 0 {
		j.Directives = gen.Shuffle(t, j.Directives)
	}
	c := C02Case{Directives: j.Directives, Text: ref.RenderAll(j.Directives)}
	c.Flags = gen.DrawBalFlags(t, j, gen.FlagOpts{Mappings: true, Hide: true, Remap: true, Filters: true, Exact: true})
	c.Flags.CSV = false
	c.Flags.Digits = 9
	if cfg.MaxDec > 8 {
		c.Flags.Digits = 14 // exact for quantities with up to 12 decimals
	}
	return c
}

func TestC02(t *testing.T) {
	runProp(t, "C02", "ledger-cells", drawC02, checkC02)
}
