//go:build !no_c18

package props

import (
	"bytes"
	"flag"
	"fmt"
	"io"
	"os"
	"os/exec"
	"path/filepath"
	"sort"
	"strconv"
	"strings"
	"testing"

	"github.com/sboehler/knut/lib/syntax"
	"github.com/sboehler/knut/lib/syntax/parser"
	"pgregory.net/rapid"

	"verifharness/gen"
	"verifharness/knutio"
	"verifharness/stats"
)

// C18 — in-place rewrites (knut format, knut infer --inplace) are all-or-nothing.
//
// Fault classes:
//   fsize  RLIMIT_FSIZE = k bytes through `prlimit --fsize=k`: every regular file the process writes is cut
//          after k bytes (the write returns EFBIG). For targets whose new content is <= 600 bytes EVERY k in
//          [0, len(new)+2] is run; for larger ones the boundaries 0,1,len-1,len,len+1 and a drawn sample.
//   rodir  files below ro/ live in a directory with mode 0555 and knut runs as uid 65534 through setpriv
//          (root ignores directory modes); files below rw/ stay writable. A control run (same user, all
//          directories writable) precedes it; if the control does not behave like the fault-free run the class
//          is skipped for the case and labelled.
// Every case also has one fault-free run.

const (
	c18AllKLimit = 600
	c18DefaultAc = "Expenses:TBD"
)

type C18File struct {
	Name    string `json:"name"`
	Content []byte `json:"content"`
	Role    string `json:"role"`  // target | train
	Class   string `json:"class"` // generator class (label only)
}

type C18Case struct {
	Cmd     string    `json:"cmd"`     // format | infer
	Files   []C18File `json:"files"`   // format: all targets, in argv order; infer: one target and at most one train file (none: the target trains itself)
	Account string    `json:"account"` // infer: -a (empty: default Expenses:TBD)
	Fault   string    `json:"fault"`   // fsize | rodir
	Procs   string    `json:"procs,omitempty"` // GOMAXPROCS of the faulted runs ("" = all CPUs): with fewer workers than files one worker handles several files in turn
	// Fracs: sample positions (per 10000 of len(new)) used for targets whose new content exceeds 600 bytes.
	Fracs []int `json:"fracs,omitempty"`
	// KsTried is filled in by the check (every k that was run), so that a replay file documents the enumeration.
	KsTried []int `json:"ks_tried,omitempty"`
}

func init() { Register("C18", "all-or-nothing", checkC18) }

func c18Env(c C18Case) []string {
	if c.Procs == "" {
		return nil
	}
	return []string{"GOMAXPROCS=" + c.Procs}
}

// c18Target is the expectation for one target file.
type c18Target struct {
	name      string
	old       []byte
	parseable bool   // the command gets as far as writing this file
	new       []byte // reference new content (format: in-process; infer: stdout of the non-inplace run)
	// loose: infer may break ties between equally likely accounts differently on each run (map iteration),
	// so any content that is the formatted target with admissible accounts in the slots counts as "new".
	loose      bool
	admissible func(got []byte) bool
}

func (t *c18Target) isNew(got []byte) bool {
	if !t.parseable {
		return false
	}
	if bytes.Equal(got, t.new) {
		return true
	}
	return t.loose && t.admissible != nil && t.admissible(got)
}

func c18Parse(text []byte) (f syntax.File, err error) {
	defer func() {
		if p := recover(); p != nil {
			err = fmt.Errorf("panic: %v", p)
		}
	}()
	p := parser.New(string(text), "mem.knut")
	if err := p.Advance(); err != nil {
		return syntax.File{}, err
	}
	return p.ParseFile()
}

func c18Format(f syntax.File) (out []byte, err error) {
	defer func() {
		if p := recover(); p != nil {
			err = fmt.Errorf("panic: %v", p)
		}
	}()
	var b bytes.Buffer
	if err := syntax.FormatFile(&b, f); err != nil {
		return nil, err
	}
	return b.Bytes(), nil
}

// c18Formatted computes in-process what `knut format` would write.
func c18Formatted(text []byte) ([]byte, bool) {
	f, err := c18Parse(text)
	if err != nil {
		return nil, false
	}
	out, err := c18Format(f)
	if err != nil {
		return nil, false
	}
	return out, true
}

// c18Candidates lists the accounts the Bayes model can propose after training on text (as Model.Update
// collects them: both sides of every booking without macros that does not touch the account to infer).
func c18Candidates(train []byte, account string) map[string]bool {
	res := map[string]bool{}
	f, err := c18Parse(train)
	if err != nil {
		return res
	}
	for _, d := range f.Directives {
		t, ok := d.Directive.(syntax.Transaction)
		if !ok {
			continue
		}
		for _, b := range t.Bookings {
			if b.Credit.Macro || b.Debit.Macro {
				continue
			}
			cr, dr := b.Credit.Extract(), b.Debit.Extract()
			if cr == "" || dr == "" || cr == account || dr == account {
				continue
			}
			res[cr], res[dr] = true, true
		}
	}
	return res
}

func c18Slots(target []byte, account string) int {
	f, err := c18Parse(target)
	if err != nil {
		return 0
	}
	n := 0
	for _, d := range f.Directives {
		if t, ok := d.Directive.(syntax.Transaction); ok {
			for _, b := range t.Bookings {
				if b.Credit.Extract() == account {
					n++
				}
				if b.Debit.Extract() == account {
					n++
				}
			}
		}
	}
	return n
}

// c18Admissible decides whether got is the complete formatted target with every slot (a booking side equal
// to account) filled by some candidate account other than the booking's other side.
func c18Admissible(target []byte, account string, cands map[string]bool, got []byte) (ok bool) {
	defer func() {
		if recover() != nil {
			ok = false
		}
	}()
	tf, err := c18Parse(target)
	if err != nil {
		return false
	}
	gf, err := c18Parse(got)
	if err != nil || len(gf.Directives) != len(tf.Directives) {
		return false
	}
	for i := range tf.Directives {
		tt, isT := tf.Directives[i].Directive.(syntax.Transaction)
		if !isT {
			continue
		}
		gt, isG := gf.Directives[i].Directive.(syntax.Transaction)
		if !isG || len(gt.Bookings) != len(tt.Bookings) {
			return false
		}
		for j := range tt.Bookings {
			cr, dr := tt.Bookings[j].Credit.Extract(), tt.Bookings[j].Debit.Extract()
			if cr == account {
				ch := gt.Bookings[j].Credit.Extract()
				if !cands[ch] || ch == dr {
					return false
				}
				tt.Bookings[j].Credit = syntax.Account{Range: syntax.Range{Start: 0, End: len(ch), Text: ch}}
			}
			if dr == account {
				ch := gt.Bookings[j].Debit.Extract()
				if !cands[ch] || ch == cr {
					return false
				}
				tt.Bookings[j].Debit = syntax.Account{Range: syntax.Range{Start: 0, End: len(ch), Text: ch}}
			}
		}
	}
	out, err := c18Format(tf)
	return err == nil && bytes.Equal(out, got)
}

func c18WriteFiles(dir string, files []C18File) {
	for _, f := range files {
		p := filepath.Join(dir, f.Name)
		if err := os.MkdirAll(filepath.Dir(p), 0o755); err != nil {
			panic(err)
		}
		if err := os.WriteFile(p, f.Content, 0o644); err != nil {
			panic(err)
		}
		os.Chmod(p, 0o644)
	}
}

// c18Snapshot reads every regular file below dir (relative name → bytes).
func c18Snapshot(dir string) map[string][]byte {
	res := map[string][]byte{}
	filepath.Walk(dir, func(p string, info os.FileInfo, err error) error {
		if err != nil || info.IsDir() {
			return nil
		}
		rel, _ := filepath.Rel(dir, p)
		if !info.Mode().IsRegular() {
			res[rel] = []byte("<not a regular file>")
			return nil
		}
		b, rerr := os.ReadFile(p)
		if rerr != nil {
			b = []byte("<unreadable: " + rerr.Error() + ">")
		}
		res[rel] = b
		return nil
	})
	return res
}

// c18Restore puts dir back into the initial state given the snapshot taken after a run.
func c18Restore(dir string, files []C18File, snap map[string][]byte) {
	want := map[string]bool{}
	for _, f := range files {
		want[f.Name] = true
		if got, ok := snap[f.Name]; !ok || !bytes.Equal(got, f.Content) {
			p := filepath.Join(dir, f.Name)
			os.Remove(p)
			if err := os.WriteFile(p, f.Content, 0o644); err != nil {
				panic(err)
			}
		}
	}
	for n := range snap {
		if !want[n] {
			os.Remove(filepath.Join(dir, n))
		}
	}
}

func c18Args(c C18Case, inplace bool) []string {
	if c.Cmd == "format" {
		args := []string{"format"}
		for _, f := range c.Files {
			args = append(args, f.Name)
		}
		return args
	}
	target, train := c18InferFiles(c)
	args := []string{"infer"}
	if inplace {
		args = append(args, "--inplace")
	}
	if c.Account != "" {
		args = append(args, "-a", c.Account)
	}
	return append(args, "-t", train.Name, target.Name)
}

func c18InferFiles(c C18Case) (target, train C18File) {
	for _, f := range c.Files {
		if f.Role == "target" && target.Name == "" {
			target = f
		}
		if f.Role == "train" && train.Name == "" {
			train = f
		}
	}
	if train.Name == "" {
		train = target
	}
	return
}

// c18Text makes process output safe for a text log (no NUL / invalid UTF-8, which would make grep treat the log as binary).
func c18Text(s string) string {
	s = strings.ToValidUTF8(clip(s, 500), "?")
	return strings.Map(func(r rune) rune {
		if r < 0x20 && r != '\n' && r != '\t' {
			return '?'
		}
		return r
	}, s)
}

func c18Short(b []byte) string { return clip(fmt.Sprintf("%q", b), 700) }

// c18Judge evaluates the state after one run. k < 0: no size limit. ro: names of files in unwritable directories.
func c18Judge(c C18Case, targets []*c18Target, r knutio.Result, snap map[string][]byte, k int, ro map[string]bool, what string) *Violation {
	tag := func(v *Violation) *Violation {
		return v.With("cmd", c.Cmd).With("fault", what).With("k", fmt.Sprint(k)).With("nfiles", fmt.Sprint(len(c.Files)))
	}
	if r.TimedOut || r.Signaled || r.Panicked() || r.Exit < 0 {
		return tag(V("crash", "knut %v under %s: %s", c18Args(c, true), what, r.Brief()))
	}
	isTarget := map[string]*c18Target{}
	for _, t := range targets {
		isTarget[t.name] = t
	}
	for _, f := range c.Files {
		if isTarget[f.Name] != nil {
			continue
		}
		got, ok := snap[f.Name]
		if !ok || !bytes.Equal(got, f.Content) {
			return tag(V("bystander-modified", "%s is not a target of knut %v but was changed (present=%v)\n--before--\n%s\n--after--\n%s",
				f.Name, c18Args(c, true), ok, c18Short(f.Content), c18Short(got))).With("file", f.Name)
		}
	}
	allNew := true
	for _, t := range targets {
		got, ok := snap[t.name]
		if !ok {
			return tag(V("target-missing", "%s no longer exists after knut %v under %s\n%s", t.name, c18Args(c, true), what, r.Brief())).With("file", t.name)
		}
		isOld, isNew := bytes.Equal(got, t.old), t.isNew(got)
		if !isOld && !isNew {
			kind := "torn-file"
			if !t.parseable {
				kind = "failed-before-write-but-modified"
			}
			return tag(V(kind, "%s holds neither its previous nor the complete new content after knut %v under %s (exit %d, parseable=%v)\n--old (%d bytes)--\n%s\n--new (%d bytes)--\n%s\n--found (%d bytes)--\n%s\n--stderr--\n%s",
				t.name, c18Args(c, true), what, r.Exit, t.parseable, len(t.old), c18Short(t.old), len(t.new), c18Short(t.new), len(got), c18Short(got), c18Text(r.Stderr))).With("file", t.name)
		}
		var shouldNew bool
		if t.loose {
			// the length of what this run tried to write is not known in advance: judge by what is there
			shouldNew = isNew && !(isOld && r.Exit != 0)
			if k < 0 && !ro[t.name] && !isNew {
				return tag(V("write-prevented", "%s should hold new content after knut %v under %s but is unchanged; exit %d\n--stderr--\n%s",
					t.name, c18Args(c, true), what, r.Exit, c18Text(r.Stderr))).With("file", t.name)
			}
			if isNew && !isOld && k >= 0 && k < len(got) {
				return tag(V("written-beyond-limit", "%s holds %d new bytes although the size limit was %d", t.name, len(got), k)).With("file", t.name)
			}
		} else {
			shouldNew = t.parseable && (k < 0 || k >= len(t.new)) && !ro[t.name]
			if shouldNew && !isNew {
				return tag(V("write-prevented", "%s should hold its new content after knut %v under %s (its own write of %d bytes fits / it parses) but is unchanged; exit %d\n--old--\n%s\n--stderr--\n%s",
					t.name, c18Args(c, true), what, len(t.new), r.Exit, c18Short(t.old), c18Text(r.Stderr))).With("file", t.name)
			}
			if !shouldNew && !isOld {
				return tag(V("unexpected-new", "%s holds its new content although its write cannot have completed (%s, parseable=%v, len(new)=%d)", t.name, what, t.parseable, len(t.new))).With("file", t.name)
			}
		}
		if !shouldNew {
			allNew = false
		}
	}
	if allNew && r.Exit != 0 {
		return tag(V("exit-nonzero-on-success", "every target was rewritten but knut %v exits %d under %s\n--stderr--\n%s", c18Args(c, true), r.Exit, what, c18Text(r.Stderr)))
	}
	if !allNew {
		if r.Exit == 0 {
			return tag(V("exit-zero-on-failure", "knut %v exits 0 under %s although at least one target was not rewritten", c18Args(c, true), what))
		}
		if strings.TrimSpace(r.Stderr) == "" {
			return tag(V("no-diagnostic", "knut %v exits %d under %s without a diagnostic", c18Args(c, true), r.Exit, what))
		}
	}
	return nil
}

func c18Leftovers(c C18Case, snap map[string][]byte) int {
	n := 0
	for name := range snap {
		found := false
		for _, f := range c.Files {
			if f.Name == name {
				found = true
			}
		}
		if !found {
			n++
		}
	}
	return n
}

// c18Expectations computes the per-target expectation; for infer it runs the non-inplace command once.
func c18Expectations(c C18Case, dir, bin string, o *Outcome) ([]*c18Target, *Violation) {
	var targets []*c18Target
	if c.Cmd == "format" {
		for _, f := range c.Files {
			t := &c18Target{name: f.Name, old: f.Content}
			t.new, t.parseable = c18Formatted(f.Content)
			targets = append(targets, t)
		}
		return targets, nil
	}
	target, train := c18InferFiles(c)
	account := c.Account
	if account == "" {
		account = c18DefaultAc
	}
	t := &c18Target{name: target.Name, old: target.Content}
	r := knutio.Run(knutio.Opts{Dir: dir, Bin: bin}, c18Args(c, false)...)
	o.Evals++
	if r.TimedOut || r.Signaled || r.Panicked() || r.Exit < 0 {
		// not this property's business (C14); the in-place run is expected to fail before writing
		o.Labels = append(o.Labels, "infer:reference-run-crashed")
	}
	snap := c18Snapshot(dir)
	for _, f := range c.Files {
		if !bytes.Equal(snap[f.Name], f.Content) {
			return nil, V("non-inplace-modified", "knut %v (without --inplace) changed %s", c18Args(c, false), f.Name).With("cmd", c.Cmd)
		}
	}
	if r.Exit == 0 {
		t.parseable = true
		t.new = []byte(r.Stdout)
		cands := c18Candidates(train.Content, account)
		slots := c18Slots(target.Content, account)
		if slots > 0 && len(cands) > 1 {
			t.loose = true
			tc := append([]byte{}, target.Content...)
			t.admissible = func(got []byte) bool { return c18Admissible(tc, account, cands, got) }
			o.Labels = append(o.Labels, "infer:ties-possible")
		} else if slots > 0 {
			o.Labels = append(o.Labels, "infer:slots-single-candidate")
		} else {
			o.Labels = append(o.Labels, "infer:no-slots")
		}
	} else {
		o.Labels = append(o.Labels, "infer:fails-before-write")
	}
	return []*c18Target{t}, nil
}

// c18Ks lists the limits to run for the fsize class.
func c18Ks(targets []*c18Target, fracs []int) (ks []int, exhaustive bool) {
	maxLen := -1
	for _, t := range targets {
		if t.parseable && len(t.new) > maxLen {
			maxLen = len(t.new)
		}
	}
	set := map[int]bool{}
	if maxLen < 0 {
		// nothing is ever written: a few limits suffice
		set[0], set[1], set[len(targets[0].old)] = true, true, true
	} else if maxLen <= c18AllKLimit {
		exhaustive = true
		for k := 0; k <= maxLen+2; k++ {
			set[k] = true
		}
	} else {
		for _, t := range targets {
			if !t.parseable {
				continue
			}
			n := len(t.new)
			for _, k := range []int{0, 1, n - 1, n, n + 1} {
				if k >= 0 {
					set[k] = true
				}
			}
			for _, f := range fracs {
				set[int(int64(f)*int64(n)/10000)] = true
			}
			if n > 200000 {
				// large outputs: offsets inside the last buffer-sized blocks as well (streaming writers fail there)
				for _, d := range []int{100, 4096, 5000, 30000, 60000, 65536, 70000, 131072} {
					set[n-d] = true
				}
			}
		}
	}
	for k := range set {
		ks = append(ks, k)
	}
	sort.Ints(ks)
	return ks, exhaustive
}

func checkC18(c C18Case) Outcome {
	o, _ := c18Eval(&c)
	return o
}

// c18Eval evaluates a case; nt lists the canonical keys (content hash, k) of the non-trivial evaluations.
func c18Eval(c *C18Case) (o Outcome, nt []string) {
	o.Labels = append(o.Labels, "cmd:"+c.Cmd, "fault:"+c.Fault, fmt.Sprintf("files:%d", len(c.Files)))
	for _, f := range c.Files {
		o.Labels = append(o.Labels, "class:"+f.Class)
	}
	if len(c.Files) == 0 {
		return o, nil
	}
	if c.Cmd == "infer" {
		if t, tr := c18InferFiles(*c); t.Name == tr.Name {
			o.Labels = append(o.Labels, "infer:self-trained")
		}
	}
	if c.Fault == "rodir" {
		c18EvalRodir(c, &o)
		return o, nil
	}
	files := map[string]string{}
	for _, f := range c.Files {
		files[f.Name] = string(f.Content)
	}
	dir, cleanup := knutio.Materialise(files)
	defer cleanup()
	targets, v := c18Expectations(*c, dir, "", &o)
	if v != nil {
		o.Violation = v
		return o, nil
	}
	nParse := 0
	h := stats.Hash(func() string {
		var b strings.Builder
		b.WriteString(c.Cmd + "|" + c.Account)
		for _, f := range c.Files {
			fmt.Fprintf(&b, "|%s|%s|%d|", f.Name, f.Role, len(f.Content))
			b.Write(f.Content)
		}
		return b.String()
	}())
	for _, t := range targets {
		if t.parseable {
			nParse++
			if len(t.new) == 0 {
				o.Labels = append(o.Labels, "target:new-is-empty")
			} else if bytes.Equal(t.old, t.new) {
				o.Labels = append(o.Labels, "target:already-formatted")
			} else {
				o.Labels = append(o.Labels, "target:changes")
			}
		} else {
			o.Labels = append(o.Labels, "target:fails-before-write")
		}
	}
	switch {
	case len(targets) > 1 && nParse > 0 && nParse < len(targets):
		o.Labels = append(o.Labels, "set:mixed-parseable-and-not")
	case len(targets) > 1 && nParse == 0:
		o.Labels = append(o.Labels, "set:none-parseable")
	case len(targets) > 1:
		o.Labels = append(o.Labels, "set:all-parseable")
	}

	// fault-free run
	r := knutio.Run(knutio.Opts{Dir: dir}, c18Args(*c, true)...)
	o.Evals++
	snap := c18Snapshot(dir)
	if v := c18Judge(*c, targets, r, snap, -1, nil, "no fault"); v != nil {
		o.Violation = v
		return o, nil
	}
	if c18Leftovers(*c, snap) > 0 {
		o.Labels = append(o.Labels, "leftover-temp:no-fault")
	}
	for _, t := range targets {
		if t.loose && !bytes.Equal(snap[t.name], t.new) {
			o.Labels = append(o.Labels, "infer:tie-broken-differently")
		}
	}
	c18Restore(dir, c.Files, snap)

	ks, exhaustive := c18Ks(targets, c.Fracs)
	if exhaustive {
		o.Labels = append(o.Labels, "k:exhaustive")
	} else if nParse > 0 {
		o.Labels = append(o.Labels, "k:sampled")
	} else {
		o.Labels = append(o.Labels, "k:nothing-to-write")
	}
	c.KsTried = ks
	leftover := false
	for _, k := range ks {
		r := knutio.Run(knutio.Opts{Dir: dir, Env: c18Env(*c), Prefix: []string{"prlimit", fmt.Sprintf("--fsize=%d", k)}}, c18Args(*c, true)...)
		o.Evals++
		snap := c18Snapshot(dir)
		what := fmt.Sprintf("RLIMIT_FSIZE=%d", k)
		if strings.HasPrefix(r.Stderr, "prlimit:") && r.Exit != 0 {
			// the injector itself failed: not a verdict about knut
			o.Labels = append(o.Labels, "fsize:injector-failed")
			c18Restore(dir, c.Files, snap)
			continue
		}
		if v := c18Judge(*c, targets, r, snap, k, nil, what); v != nil {
			o.Violation = v
			return o, nt
		}
		if c18Leftovers(*c, snap) > 0 {
			leftover = true
		}
		struck := false
		for _, t := range targets {
			if t.parseable && k > 0 && k < len(t.new) && !bytes.Equal(t.old, t.new) && bytes.Equal(snap[t.name], t.old) {
				struck = true
			}
		}
		if struck {
			nt = append(nt, fmt.Sprintf("%x|%d", h, k))
		}
		c18Restore(dir, c.Files, snap)
	}
	if leftover {
		o.Labels = append(o.Labels, "leftover-temp:fsize")
	}
	if len(nt) > 0 {
		o.NonTrivial = true
		o.Labels = append(o.Labels, "struck-inside-write")
		if len(targets) > 1 {
			o.Labels = append(o.Labels, "struck-inside-write:several-files")
		}
	}
	o.Canon = fmt.Sprintf("%x", h)
	return o, nt
}

var c18Setpriv = []string{"setpriv", "--reuid=65534", "--regid=65534", "--clear-groups"}

// c18PrivateRoot creates a world-traversable directory holding a link to the knut binary: the driver's work
// directory is 0700, so uid 65534 could neither execute the binary there nor reach the case directory.
func c18PrivateRoot() (root, bin string, cleanup func(), err error) {
	root, err = os.MkdirTemp(os.TempDir(), "c18ro-")
	if err != nil {
		return "", "", func() {}, err
	}
	cleanup = func() {
		filepath.Walk(root, func(p string, info os.FileInfo, err error) error {
			if err == nil && info.IsDir() {
				os.Chmod(p, 0o755)
			}
			return nil
		})
		os.RemoveAll(root)
	}
	os.Chmod(root, 0o755)
	bin = filepath.Join(root, "knut")
	if os.Link(knutio.Bin(), bin) != nil {
		src, e1 := os.Open(knutio.Bin())
		if e1 != nil {
			return root, "", cleanup, e1
		}
		defer src.Close()
		dst, e2 := os.OpenFile(bin, os.O_CREATE|os.O_WRONLY|os.O_TRUNC, 0o755)
		if e2 != nil {
			return root, "", cleanup, e2
		}
		if _, e3 := io.Copy(dst, src); e3 != nil {
			dst.Close()
			return root, "", cleanup, e3
		}
		dst.Close()
	}
	os.Chmod(bin, 0o755)
	return root, bin, cleanup, nil
}

func c18Dirs(dir string, files []C18File) []string {
	set := map[string]bool{dir: true}
	for _, f := range files {
		set[filepath.Dir(filepath.Join(dir, f.Name))] = true
	}
	return sortedKeys(set)
}

func c18EvalRodir(c *C18Case, o *Outcome) {
	if _, err := exec.LookPath("setpriv"); err != nil {
		o.Labels = append(o.Labels, "rodir:skipped-no-setpriv")
		return
	}
	root, bin, cleanup, err := c18PrivateRoot()
	defer cleanup()
	if err != nil {
		o.Labels = append(o.Labels, "rodir:skipped-no-private-root")
		return
	}
	dir := filepath.Join(root, "case")
	os.MkdirAll(dir, 0o755)
	c18WriteFiles(dir, c.Files)
	ro := map[string]bool{}
	for _, f := range c.Files {
		if strings.HasPrefix(f.Name, "ro/") {
			ro[f.Name] = true
		}
	}
	setModes := func(fault bool) {
		for _, d := range c18Dirs(dir, c.Files) {
			mode := os.FileMode(0o777)
			if fault && filepath.Base(d) == "ro" {
				mode = 0o555
			}
			os.Chmod(d, mode)
		}
	}
	// expectations (infer: reference run as root, all writable)
	targets, v := c18Expectations(*c, dir, bin, o)
	if v != nil {
		o.Violation = v
		return
	}
	// control: same user, every directory writable
	setModes(false)
	r := knutio.Run(knutio.Opts{Dir: dir, Bin: bin, Env: c18Env(*c), Prefix: c18Setpriv}, c18Args(*c, true)...)
	o.Evals++
	snap := c18Snapshot(dir)
	if v := c18Judge(*c, targets, r, snap, -1, nil, "control run as uid 65534, directories writable"); v != nil {
		// cannot tell the effect of the read-only directory from the effect of the user switch
		o.Labels = append(o.Labels, "rodir:skipped-control-failed")
		stats.Get("C18").Note("rodir control failed: " + clip(v.Msg, 300))
		return
	}
	c18Restore(dir, c.Files, snap)
	setModes(true)
	r = knutio.Run(knutio.Opts{Dir: dir, Bin: bin, Env: c18Env(*c), Prefix: c18Setpriv}, c18Args(*c, true)...)
	o.Evals++
	setModes(false)
	snap = c18Snapshot(dir)
	// loose targets: in a read-only directory nothing may change at all
	for _, t := range targets {
		if ro[t.name] {
			t.loose = false
		}
	}
	if v := c18Judge(*c, targets, r, snap, -1, ro, "read-only directory ro/ (uid 65534)"); v != nil {
		o.Violation = v
		return
	}
	nRo, nRw := 0, 0
	for _, t := range targets {
		if ro[t.name] {
			nRo++
		} else {
			nRw++
		}
	}
	o.Labels = append(o.Labels, "rodir:ran")
	if strings.Contains(r.Stderr, "permission denied") {
		o.Labels = append(o.Labels, "rodir:permission-denied-reported")
	}
	if nRo > 0 && nRw > 0 {
		o.Labels = append(o.Labels, "rodir:mixed-ro-and-rw-targets")
	}
	if c18Leftovers(*c, snap) > 0 {
		o.Labels = append(o.Labels, "leftover-temp:rodir")
	}
}

// ---------------------------------------------------------------------------------------------------------
// generator

func c18DrawContent(t *rapid.T, forInfer bool, account string, preferValid bool) ([]byte, string) {
	classes := []string{"noisy", "noisy", "noisy", "noisy", "noisy", "mutated", "mutated", "tailjunk", "tailjunk", "formatted", "large", "bytes"}
	if preferValid {
		// read-only-directory class: the write must be reached for the directory to matter
		classes = []string{"noisy", "noisy", "noisy", "noisy", "formatted", "mutated", "tailjunk"}
	}
	class := rapid.SampledFrom(classes).Draw(t, "class")
	if !preferValid && rapid.IntRange(0, 24).Draw(t, "huge") == 0 {
		// a journal of more than 1 MiB: a noisy block repeated (streaming / chunked writers behave differently there)
		block := gen.RenderNoisy(t, gen.GenSyntaxJournal(t, 25, !forInfer))
		if len(block) < 200 {
			block += "2020-01-01 open  Assets:Filler\n# filler comment line to give the block some size\n"
		}
		if !strings.HasSuffix(block, "\n") {
			block += "\n"
		}
		var sb strings.Builder
		for sb.Len() < (1<<20)+rapid.IntRange(1000, 300000).Draw(t, "hugeExtra") {
			sb.WriteString(block)
			sb.WriteString("\n")
		}
		return []byte(sb.String()), "huge"
	}
	maxN := rapid.SampledFrom([]int{2, 3, 4, 6, 8}).Draw(t, "maxN")
	if class == "large" {
		maxN = rapid.SampledFrom([]int{12, 25}).Draw(t, "maxNLarge")
	}
	if class == "bytes" {
		return rapid.SliceOfN(rapid.Byte(), 0, 40).Draw(t, "raw"), class
	}
	ds := gen.GenSyntaxJournal(t, maxN, !forInfer)
	if len(ds) == 0 {
		ds = gen.GenSyntaxJournal(t, maxN, !forInfer) // rapid favours small counts: second chance, so that empty journals stay a minority
	}
	if forInfer {
		// slots for the model: some booking sides are the account to infer
		for i := range ds {
			for j := range ds[i].Bookings {
				switch rapid.IntRange(0, 5).Draw(t, "slot") {
				case 0:
					ds[i].Bookings[j].Credit = account
				case 1:
					ds[i].Bookings[j].Debit = account
				}
			}
		}
	}
	text := gen.RenderNoisy(t, ds)
	switch class {
	case "mutated":
		text = gen.Mutate(t, text)
	case "tailjunk":
		// a file that parses up to a late point: junk after the last directive on its line, or an invalid byte
		// inside a comment line (the failures after which the parser has complete directives in hand)
		if rapid.Bool().Draw(t, "junkInComment") {
			text += rapid.SampledFrom([]string{"\n", "", "\n\n"}).Draw(t, "junkNl") + "# note \x80 x\n"
		} else {
			text = strings.TrimRight(text, " \t\r\n") + rapid.SampledFrom([]string{" junk", " \x80", "\t1", " \"x\""}).Draw(t, "junk")
		}
	case "formatted":
		if out, ok := c18Formatted([]byte(text)); ok {
			text = string(out)
		}
	}
	return []byte(text), class
}

func drawC18(t *rapid.T) C18Case {
	var c C18Case
	c.Cmd = rapid.SampledFrom([]string{"format", "infer", "format", "infer", "format"}).Draw(t, "cmd")
	c.Fault = rapid.SampledFrom([]string{"fsize", "rodir", "fsize", "fsize", "fsize", "fsize"}).Draw(t, "fault")
	dirOf := func(i int) string {
		if c.Fault != "rodir" {
			if rapid.IntRange(0, 7).Draw(t, "subdir") == 0 {
				return "sub/"
			}
			return ""
		}
		if i == 0 || rapid.Bool().Draw(t, "ro") {
			return "ro/"
		}
		return "rw/"
	}
	if c.Cmd == "format" && c.Fault == "fsize" && rapid.IntRange(0, 9).Draw(t, "manyFiles") == 0 {
		// one invocation over many small files, a few of them unparseable (batching / early abort)
		n := rapid.IntRange(33, 90).Draw(t, "manyN")
		nBad := rapid.IntRange(1, 3).Draw(t, "manyBad")
		bad := map[int]bool{}
		for b := 0; b < nBad; b++ {
			bad[rapid.IntRange(0, n-1).Draw(t, "badAt")] = true
		}
		for i := 0; i < n; i++ {
			content := fmt.Sprintf("2020-01-%02d  open   Assets:A%d\n", 1+i%28, i)
			class := "tiny"
			if bad[i] {
				content = fmt.Sprintf("2020-01-%02d opne Assets:A%d\n", 1+i%28, i)
				class = "tiny-bad"
			}
			c.Files = append(c.Files, C18File{Name: fmt.Sprintf("m/j%02d.knut", i), Content: []byte(content), Role: "target", Class: class})
		}
	} else if c.Cmd == "format" {
		n := rapid.SampledFrom([]int{1, 1, 1, 2, 2, 3, 4}).Draw(t, "nFiles")
		for i := 0; i < n; i++ {
			content, class := c18DrawContent(t, false, "", c.Fault == "rodir")
			c.Files = append(c.Files, C18File{Name: fmt.Sprintf("%sj%d.knut", dirOf(i), i), Content: content, Role: "target", Class: class})
		}
	} else {
		account := c18DefaultAc
		if rapid.IntRange(0, 5).Draw(t, "otherAccount") == 0 {
			account = rapid.SampledFrom([]string{"Assets:TBD", "Expenses:Food", "Assets:Bank"}).Draw(t, "account")
			c.Account = account
		}
		content, class := c18DrawContent(t, true, account, c.Fault == "rodir")
		c.Files = append(c.Files, C18File{Name: dirOf(0) + "target.knut", Content: content, Role: "target", Class: class})
		if rapid.IntRange(0, 4).Draw(t, "selfTrain") != 0 {
			// training data: mostly parseable, so that the command gets as far as writing
			var tc []byte
			var tclass string
			if rapid.IntRange(0, 5).Draw(t, "trainAny") == 0 {
				tc, tclass = c18DrawContent(t, false, account, false)
			} else {
				ds := gen.GenSyntaxJournal(t, rapid.SampledFrom([]int{2, 4, 8}).Draw(t, "trainN"), false)
				tc, tclass = []byte(gen.RenderNoisy(t, ds)), "noisy"
			}
			c.Files = append(c.Files, C18File{Name: dirOf(1) + "train.knut", Content: tc, Role: "train", Class: "train-" + tclass})
		}
	}
	c.Fracs = rapid.SliceOfN(rapid.IntRange(0, 10000), 8, 14).Draw(t, "fracs")
	if len(c.Files) > 1 {
		c.Procs = rapid.SampledFrom([]string{"", "", "1", "1", "2"}).Draw(t, "procs")
	}
	return c
}

// c18SpreadSeed: rapid gives test i of a run the seed base + i(i+1)/2, and the driver gives adjacent shards
// adjacent base seeds (VERIF_SEED*64 + shard + 1). With the few (expensive) cases per shard of this property the
// shards would largely replay each other's cases (observed: 12.7k non-trivial evaluations, only 3.9k distinct).
// The base seed is therefore multiplied by a large odd constant: still a pure function of (VERIF_SEED, shard).
func c18SpreadSeed() (restore func()) {
	f := flag.Lookup("rapid.seed")
	if f == nil {
		return func() {}
	}
	old := f.Value.String()
	v, err := strconv.ParseUint(old, 10, 64)
	if err != nil || v == 0 {
		return func() {}
	}
	flag.Set("rapid.seed", strconv.FormatUint(v*1000003, 10))
	return func() { flag.Set("rapid.seed", old) }
}

func TestC18(t *testing.T) {
	defer c18SpreadSeed()()
	rapid.Check(t, func(rt *rapid.T) {
		c := drawC18(rt)
		o, nt := c18Eval(&c)
		// one evaluation per (file set, k): distinctness of the non-trivial ones is by (content, k)
		rec := stats.Get("C18")
		evals := o.Evals
		for _, key := range nt {
			rec.Case(key, true, nil)
			evals--
		}
		o.Evals = evals
		Record("C18", c, o)
		Report(rt, "C18", "all-or-nothing", c, o.Violation)
	})
}
