//go:build !no_c14_fuzz

package props

import (
	"bytes"
	"context"
	"io"
	"os"
	"path/filepath"
	"strings"
	"sync"
	"testing"
	"time"

	"github.com/sboehler/knut/lib/journal"
	"github.com/sboehler/knut/lib/journal/check"
	"github.com/sboehler/knut/lib/model/registry"
	"github.com/sboehler/knut/lib/syntax/directives"
	"github.com/sboehler/knut/lib/syntax/parser"

	"verifharness/knutio"
)

// c14FuzzKnown reports whether the input is an instance of a confirmed defect
// whose exclusion flag is on (decided on the parsed input, not on the crash).
func c14FuzzKnown(text string) bool {
	if !c14ExcludeAccrualEmptyWindow && !c14ExcludeZeroTime {
		return false
	}
	known := false
	func() {
		defer func() { recover() }()
		p := parser.New(text, "fuzz.knut")
		if err := p.Advance(); err != nil {
			return
		}
		f, err := p.ParseFile()
		if err != nil {
			return
		}
		for _, d := range f.Directives {
			t, ok := d.Directive.(directives.Transaction)
			if !ok || t.Addons.Accrual.Empty() {
				continue
			}
			s, err1 := t.Addons.Accrual.Start.Parse()
			e, err2 := t.Addons.Accrual.End.Parse()
			if err1 != nil || err2 != nil {
				continue
			}
			if c14ExcludeAccrualEmptyWindow && e.Before(s) {
				known = true
			}
			if c14ExcludeZeroTime && s.IsZero() {
				known = true
			}
		}
	}()
	return known
}

// FuzzC14: bytes → temp file → journal.FromPath + check + Print in-process.
// A panic, a hang or an error without a message is the failure. Inputs with
// include directives are skipped (no file system effects outside the temp file).
func FuzzC14(f *testing.F) {
	seedJournals(f)
	for _, s := range []string{
		"@accrue monthly 2020-01-01 2020-12-31 Equity:Accrual\n2020-01-02 \"x\"\nAssets:A Expenses:B 10 CHF\n\n",
		"@accrue daily 2020-03-31 2020-03-31 Assets:A\n2020-01-02 \"x\"\nIncome:A Expenses:B -0.01 CHF\n\n",
		"9999-12-31 \"x\"\nAssets:A Expenses:B 1 CHF\n\n9999-12-31 price CHF 1 USD\n",
		"0001-01-02 open Assets:A\n0001-01-02 balance Assets:A 0 CHF\n0001-01-02 close Assets:A\n",
		"2020-01-01 open Foo:Bar\n", "2020-13-45 open Assets:A\n", "2020-01-01 price USD 0 CHF\n2020-01-01 price CHF 0 USD\n",
		"2020-01-01 \"x\"\nAssets:A Assets:A 1" + strings.Repeat("0", 400) + " CHF\n\n",
		"2020-01-01 \"x\"\nAssets:A Expenses:B 0." + strings.Repeat("0", 400) + "1 １２\n\n",
		"@performance()\n2020-01-01 \"x\"\nAssets:A Assets:٣ 1 A٣\n\n",
		"2020-01-01 balance\nAssets:A 1 CHF\nAssets:A 2 CHF\n\n2020-01-01 close Assets:A\n2020-01-01 open Assets:A\n",
	} {
		f.Add([]byte(s))
	}
	f.Fuzz(func(t *testing.T, b []byte) {
		if len(b) > 64<<10 || bytes.Contains(b, []byte("include")) {
			t.Skip()
		}
		if c14FuzzKnown(string(b)) {
			t.Skip()
		}
		path := filepath.Join(c14FuzzDir(), "fuzz.knut")
		if err := os.WriteFile(path, b, 0o644); err != nil {
			t.Skip()
		}
		var err error
		c := C14Case{Cmd: "library", Files: map[string][]byte{"fuzz.knut": b}, Main: "fuzz.knut", Content: "fuzz", Flags: "default"}
		p := Guard("C14", "clean-failure", c, 60*time.Second, func() {
			reg := registry.New()
			jb, e := journal.FromPath(context.Background(), reg, path)
			if e != nil {
				err = e
				return
			}
			if e := jb.Build().Process(check.Check()); e != nil {
				err = e
				return
			}
			err = journal.Print(io.Discard, jb.Build())
		})
		if p != nil {
			t.Fatalf("VIOLATION property=C14 kind=panic: in-process load/check/print panicked: %v\n--input--\n%q", p, clip(string(b), 2000))
		}
		if err != nil && strings.TrimSpace(err.Error()) == "" {
			t.Fatalf("VIOLATION property=C14 kind=no-diagnostic: error without a message\n--input--\n%q", clip(string(b), 2000))
		}
	})
}

var c14FuzzDirOnce struct {
	once sync.Once
	dir  string
}

// c14FuzzDir is one scratch directory per fuzz worker process (a fresh
// t.TempDir per execution costs two thirds of the throughput); it lives under
// the driver's work directory, which is removed at the end of the run.
func c14FuzzDir() string {
	c14FuzzDirOnce.once.Do(func() {
		os.MkdirAll(knutio.WorkRoot(), 0o755)
		d, err := os.MkdirTemp(knutio.WorkRoot(), "c14fuzz-")
		if err != nil {
			panic(err)
		}
		c14FuzzDirOnce.dir = d
	})
	return c14FuzzDirOnce.dir
}
