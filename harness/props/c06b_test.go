//go:build !no_c06b

package props

import (
	"fmt"
	"strings"
	"testing"

	"pgregory.net/rapid"

	"verifharness/ref"
)

// C06 for the two commands that do not read a journal tree the way the reports do: infer (training set and
// target drawn by the C15 generator) and import (statements drawn by the C13 generators). Same oracle as
// TestC06: the same argv, repeated under different schedules and map seeds, prints the same bytes.

func drawC06Infer(t *rapid.T) C06Case {
	c15 := drawC15(t)
	c := C06Case{Files: c15.Files, Argv: c15Args(c15, false), Class: "infer", Runs: 6}
	if thorough() {
		c.Runs = 24
	}
	if strings.Contains(c15.Files[c15Target], c15.Placeholder) {
		c.Ties = append(c.Ties, "tie:infer-choice")
	}
	for _, cl := range c15.Classes {
		if strings.Contains(cl, "tie") {
			c.Ties = append(c.Ties, "tie:equal-score-candidates")
			c.Runs = 5 * c.Runs / 2
			break
		}
	}
	return c
}

var c06Importers = []string{"cumulus", "postfinance", "supercard", "swisscard", "swisscard2", "viac", "revolut", "revolut2", "revolut2", "wise", "swissquote", "interactivebrokers"}

func drawC06Import(t *rapid.T) C06Case {
	imp := rapid.SampledFrom(c06Importers).Draw(t, "importer")
	c := C06Case{Class: "import:" + imp, Runs: 6}
	if thorough() {
		c.Runs = 16
	}
	var a C13ACase
	var b C13BCase
	isA := true
	switch imp {
	case "cumulus":
		a = drawC13ACumulus(t)
	case "postfinance":
		a = drawC13APostfinance(t)
	case "supercard":
		a = drawC13ASupercard(t)
	case "swisscard":
		a = drawC13ASwisscard(t)
	case "swisscard2":
		a = drawC13ASwisscard2(t)
	case "viac":
		a = drawC13AViac(t)
	case "revolut":
		b, isA = drawC13BRevolut(t), false
	case "revolut2":
		b, isA = drawC13BRevolut2(t), false
	case "wise":
		b, isA = drawC13BWise(t), false
	case "swissquote":
		b, isA = drawC13BSwissquote(t), false
	default:
		b, isA = drawC13BIB(t), false
	}
	if isA {
		stmt := a.Stmt
		if a.Latin1 {
			if s, ok := c13aLatin1(stmt); ok {
				stmt = s
			}
		}
		file := "stmt.csv"
		if a.Importer == "viac" {
			file = "stmt.json"
		}
		c.Files = map[string]string{file: stmt}
		c.Argv = append(append([]string{"import", c13aImporters[a.Importer]}, a.Args...), file)
		if len(a.Expect)+len(a.Prices) >= 2 {
			c.Ties = append(c.Ties, "tie:several-rows")
		}
		return c
	}
	p := c13bPlanOf(b)
	c.Files = map[string]string{"stmt": p.stmt}
	c.Argv = append(append([]string{"import", p.cmd}, p.args...), "stmt")
	if p.booking >= 2 {
		c.Ties = append(c.Ties, "tie:several-rows")
	}
	if p.multiDay {
		c.Ties = append(c.Ties, "tie:multi-currency-day")
		c.Runs = 2 * c.Runs
	}
	return c
}

// drawC06Prices: journals from the C12 price-graph generator (forests plus free declarations: alternative
// paths of equal length, cycles, redeclarations), one unit of every commodity held, under the valued commands.
func drawC06Prices(t *rapid.T) C06Case {
	pc := drawC12(t, true)
	v := pc.Coms[pc.V]
	c := C06Case{Files: map[string]string{"main.knut": c12Journal(pc)}, Class: "price-graph", Runs: 8}
	if thorough() {
		c.Runs = 24
	}
	switch rapid.IntRange(0, 4).Draw(t, "cmd") {
	case 0:
		c.Argv = []string{"transcode", "-v", v, "main.knut"}
	case 1:
		c.Argv = []string{"register", "--color=false", "-v", v, "--to", "2031-01-01", "main.knut"}
	case 2:
		c.Argv = []string{"portfolio", "weights", "--color=false", "--csv", "-v", v, "--to", "2031-01-01", "main.knut"}
	default:
		c.Argv = []string{"balance", "--color=false", "-v", v, "--days", "--to", "2031-01-01", "--digits", "8", "main.knut"}
		if rapid.Bool().Draw(t, "csv") {
			c.Argv = append(c.Argv[:len(c.Argv)-1], "--csv", "main.knut")
		}
	}
	pairs := map[[2]int]bool{}
	for _, d := range pc.Decls {
		a, b := d.C, d.T
		if a > b {
			a, b = b, a
		}
		if a != b {
			pairs[[2]int{a, b}] = true
		}
	}
	if len(pairs) >= len(pc.Coms) && len(pc.Hold) >= 2 {
		c.Ties = append(c.Ties, "tie:alternative-price-paths")
	}
	return c
}

// drawC06Portfolio: the cases of the C20 generator with their own flags (universe file, -m, --account/--commodity,
// window/interval/--last; leveraged positions with a zero total, hence Inf/NaN shares, included) under
// `portfolio weights` (text and CSV, sorted by weight or by name) and `portfolio returns`.
func drawC06Portfolio(t *rapid.T) C06Case {
	returns := rapid.IntRange(0, 3).Draw(t, "returns") == 0
	var pc C20Case
	nonFinite := false
	switch {
	case returns:
		pc = drawC20ReturnsCase(t)
	case rapid.IntRange(0, 3).Draw(t, "nonFiniteClass") == 0:
		pc, nonFinite = drawC06LeveragedClasses(t), true
	default:
		pc = drawC20Weights(t)
	}
	c := C06Case{Files: pc.files(), Class: "portfolio", Runs: 8}
	if thorough() {
		c.Runs = 24
	}
	if nonFinite {
		c.Ties = append(c.Ties, "tie:non-finite-weights")
		c.Runs = 2 * c.Runs
	}
	var args []string
	if returns {
		args = append([]string{"portfolio", "returns", "-v", pc.V}, pc.windowArgs()...)
		args = append(args, pc.filterArgs()...)
	} else {
		args = append([]string{"portfolio", "weights", "--color=false", "-v", pc.V}, pc.windowArgs()...)
		args = append(args, pc.filterArgs()...)
		if pc.Universe != nil {
			args = append(args, "--universe", "universe.yaml")
		}
		if pc.Mapping != "" {
			args = append(args, "-m", pc.Mapping)
		}
		if rapid.Bool().Draw(t, "csv") {
			args = append(args, "--csv")
		}
		if rapid.IntRange(0, 2).Draw(t, "alpha") == 0 {
			args = append(args, "-a")
		}
		if rapid.IntRange(0, 2).Draw(t, "digits") == 0 {
			args = append(args, "--digits", rapid.SampledFrom([]string{"0", "2", "14", "16"}).Draw(t, "digitsV"))
		}
	}
	c.Argv = append(args, "j.knut")
	held := map[string]bool{}
	for _, d := range pc.Directives {
		for _, b := range d.Bookings {
			held[b.Com] = true
		}
	}
	if len(held) >= 2 {
		c.Ties = append(c.Ties, "tie:several-holdings")
	}
	if pc.Universe != nil {
		c.Ties = append(c.Ties, "tie:universe-classes")
	}
	return c
}

// drawC06LeveragedClasses: a position bought entirely on a loan (net value exactly zero at the first report
// dates: shares +Inf and -Inf, NaN for the class holding both), two more classes funded later with ordinary
// shares, class names in a drawn order. The rows are sorted by weight by default: a weight that is not a
// number must still have a fixed place.
func drawC06LeveragedClasses(t *rapid.T) C20Case {
	v := rapid.SampledFrom([]string{"CHF", "USD"}).Draw(t, "v")
	coms := rapid.Permutation([]string{"AAPL", "BTC", "EUR", "Gold", "X1"}).Draw(t, "coms")[:3]
	names := rapid.Permutation([]string{"Alternatives", "Bonds", "Cash", "Equities", "Metals"}).Draw(t, "classNames")[:3]
	day := ref.FromCivil(rapid.IntRange(2015, 2022).Draw(t, "year"), rapid.IntRange(1, 12).Draw(t, "month"), rapid.IntRange(1, 10).Draw(t, "dom"))
	var ds []ref.Directive
	for _, a := range []string{"Assets:Broker", "Liabilities:Loan", "Equity:Equity"} {
		ds = append(ds, ref.Directive{Kind: ref.KOpen, Date: day, Account: a})
	}
	prices := make([]int, 3)
	for i, cm := range coms {
		prices[i] = rapid.IntRange(1, 500).Draw(t, "price")
		ds = append(ds, ref.Directive{Kind: ref.KPrice, Date: day, Com: cm, Target: v, Price: fmt.Sprint(prices[i])})
	}
	units := rapid.IntRange(1, 40).Draw(t, "units")
	ds = append(ds, ref.Directive{Kind: ref.KTrx, Date: day + 1, Desc: "bought on margin", Bookings: []ref.Booking{
		{Credit: "Equity:Equity", Debit: "Assets:Broker", Qty: fmt.Sprint(units), Com: coms[0]},
		{Credit: "Liabilities:Loan", Debit: "Equity:Equity", Qty: fmt.Sprint(units * prices[0]), Com: v}}})
	later := day + ref.Day(rapid.IntRange(25, 70).Draw(t, "later"))
	for i := 1; i < 3; i++ {
		ds = append(ds, ref.Directive{Kind: ref.KTrx, Date: later + ref.Day(i), Desc: "funded", Bookings: []ref.Booking{
			{Credit: "Equity:Equity", Debit: "Assets:Broker", Qty: fmt.Sprint(rapid.IntRange(1, 60).Draw(t, "qty")), Com: coms[i]}}})
	}
	to := later + ref.Day(rapid.IntRange(10, 60).Draw(t, "tail"))
	c := C20Case{Directives: ds, Text: ref.RenderAll(ds), V: v, To: &to,
		Interval: int(rapid.SampledFrom([]ref.Interval{ref.Monthly, ref.Weekly, ref.Daily, ref.Quarterly}).Draw(t, "interval")),
		Universe: map[string][]string{names[0]: {coms[0], v}, names[1]: {coms[1]}, names[2]: {coms[2]}}}
	return c
}

func TestC06Portfolio(t *testing.T) { runProp(t, "C06", "repeat-runs", drawC06Portfolio, checkC06) }
func TestC06Prices(t *testing.T)    { runProp(t, "C06", "repeat-runs", drawC06Prices, checkC06) }
func TestC06Infer(t *testing.T)     { runProp(t, "C06", "repeat-runs", drawC06Infer, checkC06) }
func TestC06Import(t *testing.T)    { runProp(t, "C06", "repeat-runs", drawC06Import, checkC06) }
