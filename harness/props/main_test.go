package props

import (
	"encoding/json"
	"fmt"
	"os"
	"path/filepath"
	"sort"
	"strings"
	"testing"

	"pgregory.net/rapid"

	"verifharness/stats"
)

func TestMain(m *testing.M) {
	code := m.Run()
	stats.FlushAll()
	os.Exit(code)
}

// runProp is the common shape of every property: draw a serialisable case,
// evaluate it with a plain function, record evidence, report violations.
func runProp[C any](t *testing.T, prop, oracle string, draw func(*rapid.T) C, check func(C) Outcome) {
	rapid.Check(t, func(rt *rapid.T) {
		c := draw(rt)
		o := check(c)
		Record(prop, c, o)
		Report(rt, prop, oracle, c, o.Violation)
	})
}

// TestReplay re-evaluates $VERIF_REPLAY_FILE without rapid.
func TestReplay(t *testing.T) {
	path := os.Getenv("VERIF_REPLAY_FILE")
	if path == "" {
		t.Skip("VERIF_REPLAY_FILE not set")
	}
	v, prop, err := replayFile(path)
	if err != nil {
		t.Fatalf("replay %s: %v", path, err)
	}
	if v != nil {
		if id, ok := MatchKnown(prop, v); ok {
			fmt.Printf("KNOWN-FINDING-SEEN: property=%s id=%s\n", prop, id)
			return
		}
		fmt.Printf("VIOLATION property=%s replay=%s\nkind=%s\n%s\n", prop, path, v.Kind, v.Msg)
		t.Fail()
		return
	}
	fmt.Printf("REPLAY-OK property=%s file=%s\n", prop, path)
}

func replayFile(path string) (*Violation, string, error) {
	b, err := os.ReadFile(path)
	if err != nil {
		return nil, "", err
	}
	var rf ReplayFile
	if err := json.Unmarshal(b, &rf); err != nil {
		return nil, "", err
	}
	rp, ok := replayers[rf.Property+"/"+rf.Oracle]
	if !ok {
		return nil, rf.Property, fmt.Errorf("no replayer for %s/%s", rf.Property, rf.Oracle)
	}
	v, err := rp(rf.Case)
	return v, rf.Property, err
}

// TestCorpus replays every committed regression input of $VERIF_PROP
// (corpus/<ID>/*.json). Entries must pass or match an open known finding.
func TestCorpus(t *testing.T) {
	prop := os.Getenv("VERIF_PROP")
	if prop == "" {
		t.Skip("VERIF_PROP not set")
	}
	files, _ := filepath.Glob(filepath.Join(verifDir(), "corpus", prop, "*.json"))
	sort.Strings(files)
	rec := stats.Get(prop)
	for _, f := range files {
		v, p, err := replayFile(f)
		if err != nil && strings.HasPrefix(err.Error(), "no replayer for") {
			// the test file holding this oracle was excluded from the build (it no longer compiles against this tree)
			rec.Label("corpus-skipped-not-built")
			fmt.Printf("CORPUS-SKIPPED %s: %v\n", f, err)
			continue
		}
		if err != nil {
			t.Fatalf("corpus %s: %v", f, err)
		}
		rec.Label("corpus-replayed")
		if v == nil {
			continue
		}
		if id, ok := MatchKnown(p, v); ok {
			rec.Known(id)
			continue
		}
		rec.Violation()
		fmt.Printf("VIOLATION property=%s replay=%s\nkind=%s\n%s\n", p, f, v.Kind, v.Msg)
		t.Fail()
	}
}

// TestMinimise shrinks $VERIF_REPLAY_FILE structurally (see Minimise).
func TestMinimise(t *testing.T) {
	path := os.Getenv("VERIF_REPLAY_FILE")
	if path == "" {
		t.Skip("VERIF_REPLAY_FILE not set")
	}
	note, err := Minimise(path, 400)
	if err != nil {
		t.Fatalf("minimise %s: %v", path, err)
	}
	fmt.Printf("MINIMISE %s: %s\n", path, note)
}
