//go:build !no_c01

package props

import (
	"fmt"
	"strings"
	"testing"

	"pgregory.net/rapid"

	"verifharness/gen"
	"verifharness/knutio"
	"verifharness/ref"
)

// C01 — double-entry conservation: every complete report nets to zero.

type C01Case struct {
	Text    string       `json:"text"`
	Flags   gen.BalFlags `json:"flags"`
	NTrx    int          `json:"ntrx"`
	NComs   int          `json:"ncoms"`
	Journal ref.Journal  `json:"-"`
}

func init() { Register("C01", "delta-zero", checkC01) }

func checkC01(c C01Case) (o Outcome) {
	dir, cleanup := knutio.Materialise(map[string]string{"j.knut": c.Text})
	defer cleanup()
	args := append(append([]string{"balance"}, c.Flags.Args()...), "j.knut")
	r := knutio.Run(knutio.Opts{Dir: dir}, args...)
	o.Evals = 1
	f := c.Flags
	o.Labels = []string{"iv:" + ref.Interval(f.Interval).String(), fmt.Sprintf("valued:%v", f.Valuation != ""), fmt.Sprintf("diff:%v", f.Diff),
		fmt.Sprintf("close:%v", !f.NoClose), fmt.Sprintf("csv:%v", f.CSV), fmt.Sprintf("last:%v", f.Last != 0),
		fmt.Sprintf("mapping:%v", len(f.Mappings) > 0), fmt.Sprintf("remap:%v", len(f.Remap) > 0), fmt.Sprintf("window:%v", f.From != nil || f.To != nil)}
	if r.TimedOut || r.Signaled || r.Panicked() {
		o.Violation = V("crash", "knut %v: %s\n--journal--\n%s", args, r.Brief(), clip(c.Text, 2000))
		return o
	}
	if r.Exit != 0 {
		// not an accepted journal (or a missing price): vacuous for C01; visible in the label histogram
		o.Labels = append(o.Labels, "knut-rejected")
		if strings.Contains(r.Stderr, "no price found") {
			o.Labels = append(o.Labels, "knut-rejected:no-price")
		}
		return o
	}
	var tbl *knutio.BalanceTable
	var err error
	if f.CSV {
		tbl, err = knutio.ParseBalanceCSV(r.Stdout)
	} else {
		tbl, err = knutio.ParseBalanceText(r.Stdout)
	}
	if err != nil {
		o.Violation = V("unreadable-report", "knut %v: %v\n%s", args, err, clip(r.Stdout, 1500))
		return o
	}
	type key struct {
		com string
		col int
	}
	totAL, totEIE := map[key]string{}, map[key]string{}
	nonZeroTotal := false
	sawDelta := false
	for _, row := range tbl.Rows {
		if row.Section == "Delta" {
			sawDelta = true
		}
		for i := range tbl.Dates {
			v, err := row.Value(i)
			if err != nil {
				o.Violation = V("unreadable-report", "%v", err)
				return o
			}
			switch row.Section {
			case "Delta":
				sawDelta = true
				if v.Sign() != 0 {
					o.Violation = V("delta-nonzero", "knut %v\nDelta is %s %s in column %s\n%s\n--journal--\n%s", args, ref.DecString(v), row.Comm, tbl.Dates[i], clip(r.Stdout, 3000), clip(c.Text, 2500)).
						With("valued", fmt.Sprint(f.Valuation != ""))
					return o
				}
			case "TotalAL":
				totAL[key{row.Comm, i}] = ref.DecString(v)
				if v.Sign() != 0 {
					nonZeroTotal = true
				}
			case "TotalEIE":
				totEIE[key{row.Comm, i}] = ref.DecString(v)
			}
		}
	}
	if !sawDelta {
		o.Violation = V("no-delta-row", "knut %v printed no Delta row\n%s", args, clip(r.Stdout, 1500))
		return o
	}
	// Total (A+L) equals the displayed (negated) Total (E+I+E) per commodity and column
	for k, a := range totAL {
		e, ok := totEIE[k]
		if !ok {
			e = "0"
		}
		if a != e {
			o.Violation = V("totals-differ", "knut %v\nTotal (A+L) %s vs Total (E+I+E) %s for %q in column %s\n%s\n--journal--\n%s", args, a, e, k.com, tbl.Dates[k.col], clip(r.Stdout, 3000), clip(c.Text, 2500))
			return o
		}
	}
	for k, e := range totEIE {
		if _, ok := totAL[k]; !ok && e != "0" {
			o.Violation = V("totals-differ", "knut %v\nTotal (E+I+E) %s for %q in column %s has no A+L counterpart\n%s", args, e, k.com, tbl.Dates[k.col], clip(r.Stdout, 3000))
			return o
		}
	}
	o.NonTrivial = c.NTrx >= 2 && nonZeroTotal && (f.Valuation != "" || c.NComs >= 2 || len(tbl.Dates) >= 2)
	return o
}

func drawC01(t *rapid.T) C01Case {
	cfg := gen.HistCfg{
		MaxActions: rapid.SampledFrom([]int{6, 12, 25, 40}).Draw(t, "maxActions"),
		Accruals:   rapid.IntRange(0, 2).Draw(t, "accruals") == 0,
		Assertions: true, Closes: true, Perf: true,
		Prices:    1,
		MaxDec:    rapid.SampledFrom([]int{2, 4, 8, 12}).Draw(t, "maxDec"),
		Unicode:   rapid.IntRange(0, 5).Draw(t, "unicode") == 0,
		WideDates: true,
	}
	gen.MaybeLarge(t, &cfg, 4)
	j := gen.GenJournal(t, cfg)
	if rapid.IntRange(0, 3).Draw(t, "shuffle") == 0 {
		j.Directives = gen.Shuffle(t, j.Directives)
	}
	c := C01Case{Text: ref.RenderAll(j.Directives), Journal: j}
	c.Flags = gen.DrawBalFlags(t, j, gen.FlagOpts{Mappings: true, Remap: true, Valuation: true, Exact: true})
	if cfg.MaxDec > 8 && !c.Flags.CSV {
		c.Flags.Digits = 14 // exact for quantities with up to 12 decimals (values are cut at 8 anyway)
	}
	for _, d := range j.Directives {
		if d.Kind == ref.KTrx {
			c.NTrx++
		}
	}
	c.NComs = len(j.UsedCommodities())
	return c
}

func TestC01(t *testing.T) {
	runProp(t, "C01", "delta-zero", drawC01, checkC01)
}
