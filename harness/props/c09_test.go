//go:build !no_c09

package props

import (
	"fmt"
	"testing"

	"pgregory.net/rapid"

	"verifharness/gen"
	"verifharness/knutio"
	"verifharness/ref"
)

// C09 — print emits a normal form that round-trips.

type C09Case struct {
	Directives []ref.Directive `json:"directives"`
	Text       string          `json:"text"`
	FlagSets   [][]string      `json:"flag_sets"`
	Features   []string        `json:"features,omitempty"`
}

func init() {
	Register("C09", "print-roundtrip", checkC09)
	RegisterShrinker("C09", "print-roundtrip", func(c C09Case) []C09Case {
		var out []C09Case
		for _, ds := range shrinkDirectives(c.Directives) {
			out = append(out, C09Case{Directives: ds, Text: ref.RenderAll(ds), FlagSets: c.FlagSets, Features: c.Features})
		}
		if len(c.FlagSets) > 1 {
			for i := range c.FlagSets {
				fs := append(append([][]string{}, c.FlagSets[:i]...), c.FlagSets[i+1:]...)
				out = append(out, C09Case{Directives: c.Directives, Text: c.Text, FlagSets: fs, Features: c.Features})
			}
		}
		return out
	})
}

func checkC09(c C09Case) (o Outcome) {
	dir, cleanup := knutio.Materialise(map[string]string{"j.knut": c.Text})
	defer cleanup()
	for _, f := range c.Features {
		o.Labels = append(o.Labels, "feature:"+f)
	}
	run := func(args ...string) knutio.Result {
		o.Evals++
		return knutio.Run(knutio.Opts{Dir: dir}, args...)
	}
	p1 := run("print", "j.knut")
	if p1.TimedOut || p1.Signaled || p1.Panicked() {
		o.Violation = V("crash", "knut print: %s", p1.Brief())
		return o
	}
	if p1.Exit != 0 {
		// not an accepted journal: vacuous (the generator builds accepted journals; visible in the histogram)
		o.Labels = append(o.Labels, "knut-rejected")
		return o
	}
	_, cleanup2 := dir, func() {}
	defer cleanup2()
	if err := writeFile(dir, "p1.knut", p1.Stdout); err != nil {
		panic(err)
	}
	chk := run("check", "p1.knut")
	if chk.Exit != 0 {
		o.Violation = V("printed-journal-rejected", "knut check rejects the output of knut print:\n%s\n--printed--\n%s\n--journal--\n%s", clip(chk.Stderr, 700), clip(p1.Stdout, 2500), clip(c.Text, 2500)).
			With("why", classifyReject(chk.Stderr))
		return o
	}
	p2 := run("print", "p1.knut")
	if p2.Exit != 0 || p2.Stdout != p1.Stdout {
		o.Violation = V("print-not-idempotent", "printing the printed journal changes it (exit %d)\n%s\n--journal--\n%s", p2.Exit, diffBrief(p1.Stdout, p2.Stdout), clip(c.Text, 2500))
		return o
	}
	for _, fs := range c.FlagSets {
		a := run(append(append([]string{"balance"}, fs...), "j.knut")...)
		b := run(append(append([]string{"balance"}, fs...), "p1.knut")...)
		if a.Exit != b.Exit || a.Stdout != b.Stdout {
			o.Violation = V("balance-differs", "knut balance %v differs between the journal (exit %d) and its printed form (exit %d)\n%s\n--stderr--\n%s\n%s\n--journal--\n%s\n--printed--\n%s",
				fs, a.Exit, b.Exit, diffBrief(a.Stdout, b.Stdout), clip(a.Stderr, 300), clip(b.Stderr, 300), clip(c.Text, 2500), clip(p1.Stdout, 2500))
			return o
		}
	}
	o.NonTrivial = len(c.Features) >= 1 && p1.Stdout != c.Text
	return o
}

func c09Features(ds []ref.Directive) []string {
	set := map[string]bool{}
	assertDays := map[ref.Day]int{}
	for _, d := range ds {
		switch d.Kind {
		case ref.KTrx:
			if d.Accrual != nil {
				set["accrual"] = true
			}
			if d.HasPerf {
				set["performance"] = true
				if len(d.Perf) == 0 {
					set["performance-empty"] = true
				}
			}
			for _, b := range d.Bookings {
				q := ref.R(b.Qty)
				if q.Sign() < 0 {
					set["negative"] = true
				}
				if q.Sign() == 0 {
					set["zero"] = true
				}
				if ref.DecString(q) != b.Qty {
					set["non-canonical-number"] = true
				}
			}
			for _, r := range d.Desc {
				if r == '\n' {
					set["multiline-desc"] = true
				}
				if r > 127 {
					set["unicode"] = true
				}
			}
		case ref.KAssert:
			assertDays[d.Date]++
			if len(d.Balances) > 1 {
				set["multi-balance"] = true
			}
		}
		for _, r := range d.Account {
			if r > 127 {
				set["unicode"] = true
			}
		}
	}
	for _, n := range assertDays {
		if n > 1 {
			set["several-assertions-per-day"] = true
		}
	}
	return sortedKeys(set)
}

func drawC09(t *rapid.T) C09Case {
	cfg := gen.HistCfg{
		MaxActions: rapid.SampledFrom([]int{6, 12, 25, 40}).Draw(t, "maxActions"),
		Accruals:   rapid.IntRange(0, 1).Draw(t, "accruals") == 0,
		Assertions: true, Closes: true, Perf: true,
		Prices:        rapid.SampledFrom([]int{0, 1, 1}).Draw(t, "prices"),
		MaxDec:        rapid.SampledFrom([]int{2, 4, 8}).Draw(t, "maxDec"),
		Unicode:       rapid.IntRange(0, 2).Draw(t, "unicode") == 0,
		MultiLineDesc: true,
		WideDates:     true,
	}
	gen.MaybeLarge(t, &cfg, 4)
	j := gen.GenJournal(t, cfg)
	// several prices for one pair on one day (either direction): within one file the last one counts, and
	// printing must not change which one that is
	if cfg.Prices == 1 && rapid.IntRange(0, 2).Draw(t, "sameDayPrices") == 0 {
		var prices []int
		for i, d := range j.Directives {
			if d.Kind == ref.KPrice {
				prices = append(prices, i)
			}
		}
		if len(prices) > 0 {
			n := rapid.IntRange(1, 3).Draw(t, "nSameDay")
			for k := 0; k < n; k++ {
				src := j.Directives[prices[rapid.IntRange(0, len(prices)-1).Draw(t, "dupOf")]]
				d := ref.Directive{Kind: ref.KPrice, Date: src.Date, Com: src.Com, Target: src.Target, Price: gen.DrawPrice(t)}
				if rapid.Bool().Draw(t, "flipDirection") {
					d.Com, d.Target = d.Target, d.Com
				}
				pos := rapid.IntRange(0, len(j.Directives)).Draw(t, "dupPos")
				j.Directives = append(j.Directives[:pos:pos], append([]ref.Directive{d}, j.Directives[pos:]...)...)
			}
		}
	}
	if rapid.IntRange(0, 2).Draw(t, "shuffle") == 0 {
		j.Directives = gen.Shuffle(t, j.Directives)
	}
	c := C09Case{Directives: j.Directives, Text: ref.RenderAll(j.Directives), Features: c09Features(j.Directives)}
	n := rapid.IntRange(1, 3).Draw(t, "nFlagSets")
	for i := 0; i < n; i++ {
		f := gen.DrawBalFlags(t, j, gen.FlagOpts{Mappings: true, Hide: true, Remap: true, Filters: true, Valuation: cfg.Prices == 1})
		c.FlagSets = append(c.FlagSets, f.Args())
	}
	return c
}

func TestC09(t *testing.T) {
	runProp(t, "C09", "print-roundtrip", drawC09, checkC09)
}

var _ = fmt.Sprint
