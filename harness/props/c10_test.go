//go:build !no_c10

package props

import (
	"fmt"
	"math/big"
	"sort"
	"strings"
	"testing"
	"time"

	"github.com/sboehler/knut/lib/model/registry"
	"github.com/sboehler/knut/lib/model/transaction"
	"github.com/sboehler/knut/lib/syntax/directives"
	"github.com/sboehler/knut/lib/syntax/parser"
	"pgregory.net/rapid"

	"verifharness/gen"
	"verifharness/knutio"
	"verifharness/ref"
)

// C10 — accruals move amounts in time without creating or losing money.

type C10Case struct {
	Trx ref.Directive `json:"trx"` // a transaction with Accrual set
	CLI bool          `json:"cli,omitempty"`
	// Before: other accrued transactions processed earlier in the same run (library: expanded first in the same
	// process; CLI: in the same journal) - state must not leak from one expansion into another
	Before []ref.Directive `json:"before,omitempty"`
}

func init() { Register("C10", "accrual", checkC10) }

type leg struct {
	date ref.Day
	acc  string
	com  string
	qty  *big.Rat
}

// expandWithKnut runs transaction.Create on the parsed transaction and returns all posting legs per generated transaction.
func expandWithKnut(c C10Case) (txs [][]leg, err error, panicked any) {
	d := c.Trx
	iv := d.Accrual.Interval
	parseAs := d
	acc := *d.Accrual
	parseAs.Accrual = &acc
	handBuilt := iv == "once" || iv == "yearly"
	if handBuilt {
		parseAs.Accrual.Interval = "monthly"
	}
	text := parseAs.Render()
	p := parser.New(text, "mem.knut")
	if err := p.Advance(); err != nil {
		return nil, fmt.Errorf("harness: %v", err), nil
	}
	f, perr := p.ParseFile()
	if perr != nil || len(f.Directives) != 1 {
		return nil, fmt.Errorf("harness: generated transaction does not parse: %v\n%s", perr, text), nil
	}
	trx, ok := f.Directives[0].Directive.(directives.Transaction)
	if !ok {
		return nil, fmt.Errorf("harness: not a transaction"), nil
	}
	if handBuilt {
		trx.Addons.Accrual.Interval = directives.Interval{Range: directives.Range{Start: 0, End: len(iv), Text: iv}}
	}
	var res []*transaction.Transaction
	panicked = Guard("C10", "accrual", c, 30*time.Second, func() {
		reg := registry.New()
		for _, b := range c.Before {
			bp := parser.New(b.Render(), "mem.knut")
			if bp.Advance() != nil {
				continue
			}
			if bf, e := bp.ParseFile(); e == nil && len(bf.Directives) == 1 {
				if bt, ok := bf.Directives[0].Directive.(directives.Transaction); ok {
					transaction.Create(reg, &bt)
				}
			}
		}
		res, err = transaction.Create(reg, &trx)
	})
	if panicked != nil || err != nil {
		return nil, err, panicked
	}
	for _, t := range res {
		var legs []leg
		for _, po := range t.Postings {
			q, _ := new(big.Rat).SetString(po.Quantity.String())
			legs = append(legs, leg{date: fromTime(t.Date), acc: po.Account.Name(), com: po.Commodity.Name(), qty: q})
		}
		txs = append(txs, legs)
	}
	return txs, nil, nil
}

// expandWithCLI runs `knut print` on opens + the transaction and reads the printed transactions.
func expandWithCLI(c C10Case) (txs [][]leg, v *Violation) {
	d := c.Trx
	accs := map[string]bool{d.Accrual.Account: true}
	for _, b := range d.Bookings {
		accs[b.Credit], accs[b.Debit] = true, true
	}
	first := d.Date
	if d.Accrual.Start < first {
		first = d.Accrual.Start
	}
	var sb strings.Builder
	for _, a := range sortedKeys(accs) {
		fmt.Fprintf(&sb, "%s open %s\n", first-1, a)
	}
	for _, b := range c.Before {
		for _, bk := range b.Bookings {
			accs[bk.Credit], accs[bk.Debit] = true, true
		}
		accs[b.Accrual.Account] = true
		if b.Accrual.Start < first {
			first = b.Accrual.Start
		}
		if b.Date < first {
			first = b.Date
		}
	}
	sb.Reset()
	for _, a := range sortedKeys(accs) {
		fmt.Fprintf(&sb, "%s open %s\n", first-1, a)
	}
	for _, b := range c.Before {
		sb.WriteString(b.Render())
	}
	sb.WriteString(d.Render())
	dir, cleanup := knutio.Materialise(map[string]string{"j.knut": sb.String()})
	defer cleanup()
	r := knutio.Run(knutio.Opts{Dir: dir}, "print", "j.knut")
	if !r.OK() {
		return nil, V("cli-failed", "knut print failed on\n%s\n%s", sb.String(), r.Brief())
	}
	ds, err := knutio.ParsePrinted(r.Stdout)
	if err != nil {
		return nil, V("cli-unreadable", "printed journal not readable: %v\n%s", err, clip(r.Stdout, 1500))
	}
	for _, pd := range ds {
		if pd.Kind != ref.KTrx || !strings.HasPrefix(pd.Desc, d.Desc) {
			continue
		}
		var legs []leg
		for _, b := range pd.Bookings {
			q := ref.R(b.Qty)
			legs = append(legs, leg{pd.Date, b.Credit, b.Com, ref.Neg(q)}, leg{pd.Date, b.Debit, b.Com, q})
		}
		txs = append(txs, legs)
	}
	return txs, nil
}

func checkC10(c C10Case) (o Outcome) {
	d := c.Trx
	iv, _ := ref.ParseIntervalName(d.Accrual.Interval)
	periods := ref.Partition(d.Accrual.Start, d.Accrual.End, iv, 0)
	o.Labels = []string{"iv:" + d.Accrual.Interval, fmt.Sprintf("cli:%v", c.CLI)}
	var txs [][]leg
	if c.CLI {
		var v *Violation
		txs, v = expandWithCLI(c)
		o.Evals = 1
		if v != nil {
			o.Violation = v
			return o
		}
	} else {
		var err error
		var p any
		txs, err, p = expandWithKnut(c)
		if p != nil {
			o.Violation = V("panic", "transaction.Create panicked: %v\n%s", p, d.Render())
			return o
		}
		if err != nil {
			if strings.HasPrefix(err.Error(), "harness:") {
				panic(err)
			}
			o.Violation = V("error", "transaction.Create failed on a valid accrual: %v\n%s", err, d.Render())
			return o
		}
	}
	accr := d.Accrual.Account
	type key struct{ acc, com string }
	// 1. each generated transaction balances per commodity
	for i, legs := range txs {
		sum := map[string]*big.Rat{}
		for _, l := range legs {
			if sum[l.com] == nil {
				sum[l.com] = new(big.Rat)
			}
			sum[l.com].Add(sum[l.com], l.qty)
		}
		for com, s := range sum {
			if s.Sign() != 0 {
				o.Violation = V("unbalanced", "generated transaction %d does not balance in %s (sum %s)\n%s", i, com, ref.DecString(s), d.Render())
				return o
			}
		}
	}
	// original halves
	want := map[key]*big.Rat{}
	nHalves := map[key]int{}
	add := func(m map[key]*big.Rat, k key, x *big.Rat) {
		if m[k] == nil {
			m[k] = new(big.Rat)
		}
		m[k].Add(m[k], x)
	}
	hasNeg, hasEquityLeg := false, false
	for _, b := range d.Bookings {
		q := ref.R(b.Qty)
		if q.Sign() < 0 {
			hasNeg = true
		}
		add(want, key{b.Credit, b.Com}, ref.Neg(q))
		add(want, key{b.Debit, b.Com}, q)
		nHalves[key{b.Credit, b.Com}]++
		nHalves[key{b.Debit, b.Com}]++
		for _, a := range []string{b.Credit, b.Debit} {
			if !ref.IsAL(a) && !ref.IsIE(a) {
				hasEquityLeg = true
			}
		}
	}
	got := map[key]*big.Rat{}
	dates := map[key][]ref.Day{}
	for _, legs := range txs {
		for _, l := range legs {
			add(got, key{l.acc, l.com}, l.qty)
			dates[key{l.acc, l.com}] = append(dates[key{l.acc, l.com}], l.date)
		}
	}
	// 2. totals per (account != accrual account, commodity) preserved; 3. accrual account nets to zero
	keys := map[key]bool{}
	for k := range want {
		keys[k] = true
	}
	for k := range got {
		keys[k] = true
	}
	for k := range keys {
		g, w := got[k], want[k]
		if g == nil {
			g = new(big.Rat)
		}
		if w == nil {
			w = new(big.Rat)
		}
		if k.acc == accr {
			// The accrual account nets to zero when the transaction does not book on it. When it
			// does, conservation forces its total to stay what the transaction booked there (the
			// statement's two clauses cannot both hold otherwise), so that is what is required.
			if g.Cmp(w) != 0 {
				o.Violation = V("accrual-account-not-zero", "accrual account %s nets to %s %s, the transaction itself books %s on it\n%s", accr, ref.DecString(g), k.com, ref.DecString(w), d.Render()).With("account_type", ref.AccountType(accr))
				return o
			}
			continue
		}
		if g.Cmp(w) != 0 {
			o.Violation = V("total-changed", "account %s: original books %s %s, expansion books %s\n%s", k.acc, ref.DecString(w), k.com, ref.DecString(g), d.Render()).
				With("account_type", ref.AccountType(k.acc))
			return o
		}
	}
	// 4. dates: I/E legs once per period at the period ends, other legs on the original date
	for k, n := range nHalves {
		if k.acc == accr {
			continue
		}
		var wantDates []ref.Day
		if ref.IsIE(k.acc) {
			for i := 0; i < n; i++ {
				for _, p := range periods {
					wantDates = append(wantDates, p.End)
				}
			}
		} else {
			for i := 0; i < n; i++ {
				wantDates = append(wantDates, d.Date)
			}
		}
		gd := append([]ref.Day{}, dates[k]...)
		sort.Slice(gd, func(i, j int) bool { return gd[i] < gd[j] })
		sort.Slice(wantDates, func(i, j int) bool { return wantDates[i] < wantDates[j] })
		if fmt.Sprint(gd) != fmt.Sprint(wantDates) {
			o.Violation = V("leg-dates", "account %s (%s): legs dated %v, want %v\n%s", k.acc, k.com, gd, wantDates, d.Render()).With("account_type", ref.AccountType(k.acc))
			return o
		}
	}
	// non-trivial
	if len(periods) >= 2 {
		indivisible := false
		for _, b := range d.Bookings {
			q := ref.R(b.Qty)
			part := ref.TruncN(new(big.Rat).Quo(q, big.NewRat(int64(len(periods)), 1)), 1)
			if ref.Mul(part, big.NewRat(int64(len(periods)), 1)).Cmp(q) != 0 {
				indivisible = true
			}
		}
		o.NonTrivial = indivisible || hasNeg || len(d.Bookings) >= 2 || hasEquityLeg
		if indivisible {
			o.Labels = append(o.Labels, "indivisible")
		}
		if hasEquityLeg {
			o.Labels = append(o.Labels, "equity-leg")
		}
		if hasNeg {
			o.Labels = append(o.Labels, "negative")
		}
	}
	return o
}

func drawC10(t *rapid.T, cli bool) C10Case {
	pool := []string{"Assets:Bank", "Assets:Cash", "Liabilities:Card", "Equity:Equity", "Equity:Opening", "Income:Salary", "Income:Div", "Expenses:Tax", "Expenses:Rent:Flat", "Expenses:Ärzte"}
	accrPool := []string{"Assets:Prepaid", "Liabilities:Accrued", "Equity:Accrual", "Assets:Bank", "Expenses:Tax", "Income:Salary"}
	accr := rapid.SampledFrom(accrPool).Draw(t, "accrualAccount")
	d := ref.Directive{Kind: ref.KTrx, Desc: "accrued"}
	y := rapid.IntRange(2018, 2023).Draw(t, "y")
	m := rapid.IntRange(1, 12).Draw(t, "m")
	d.Date = ref.FromCivil(y, m, rapid.IntRange(1, ref.DaysIn(y, m)).Draw(t, "d"))
	booking := rapid.Custom(func(t *rapid.T) ref.Booking {
		q := gen.DrawQty(t, rapid.SampledFrom([]int{1, 2, 4, 8, 12}).Draw(t, "maxDec"), true)
		if rapid.IntRange(0, 24).Draw(t, "wideQty") == 0 {
			// 19 and more significant digits (18-decimal token amounts, totals beyond 2^63)
			q = rapid.SampledFrom([]string{"9.223372036854775807", "9.223372036854775808", "12.345678901234567891", "-12.345678901234567891",
				"922337.2036854775808", "18446744073709551616", "9223372036854775808", "123456789012345678901234.5", "0.00000000000000000001"}).Draw(t, "wideQtyV")
		}
		return ref.Booking{
			Credit: rapid.SampledFrom(pool).Draw(t, "credit"),
			Debit:  rapid.SampledFrom(pool).Draw(t, "debit"),
			Qty:    q,
			Com:    rapid.SampledFrom([]string{"CHF", "USD", "AAPL"}).Draw(t, "com"),
		}
	})
	d.Bookings = rapid.SliceOfN(booking, 1, 5).Draw(t, "bookings")
	ivs := []string{"daily", "weekly", "monthly", "monthly", "quarterly"}
	if !cli {
		ivs = append(ivs, "once", "yearly")
	}
	iv := rapid.SampledFrom(ivs).Draw(t, "interval")
	start := d.Date + ref.Day(rapid.IntRange(-400, 400).Draw(t, "startOff"))
	if rapid.Bool().Draw(t, "monthStart") {
		sy, sm, _ := start.Civil()
		start = ref.FromCivil(sy, sm, 1)
	}
	length := rapid.SampledFrom([]int{0, 1, 6, 13, 27, 30, 58, 89, 120, 364, 365, 730, 1200}).Draw(t, "len") + rapid.IntRange(0, 3).Draw(t, "lenOff")
	long := gen.Rare(t, "longWindow", 5)
	if long {
		// more than a thousand periods: a daily accrual over three to six years, a weekly one over twenty
		if iv != "daily" && iv != "weekly" {
			iv = "daily"
		}
		if iv == "daily" {
			length = rapid.IntRange(990, 2200).Draw(t, "longDays")
		} else {
			length = rapid.IntRange(6900, 7700).Draw(t, "longWeeks")
		}
	}
	if iv == "daily" && length > 100 && !long {
		length = length % 100
	}
	d.Accrual = &ref.Accrual{Interval: iv, Start: start, End: start + ref.Day(length), Account: accr}
	if rapid.IntRange(0, 4).Draw(t, "perf") == 0 {
		d.HasPerf = true
		d.Perf = []string{"CHF"}
	}
	c := C10Case{Trx: d, CLI: cli}
	if rapid.IntRange(0, 2).Draw(t, "hasBefore") == 0 {
		n := rapid.IntRange(1, 2).Draw(t, "nBefore")
		for i := 0; i < n; i++ {
			b := ref.Directive{Kind: ref.KTrx, Date: d.Date, Desc: fmt.Sprintf("other%d", i),
				Bookings: []ref.Booking{{Credit: rapid.SampledFrom(pool).Draw(t, "bcr"), Debit: rapid.SampledFrom(pool).Draw(t, "bdr"), Qty: gen.DrawQty(t, 2, false), Com: "CHF"}}}
			acc := *d.Accrual
			b.Accrual = &acc
			if rapid.IntRange(0, 3).Draw(t, "sameWindowOtherInterval") != 0 {
				// same window, another interval
				for _, cand := range []string{"monthly", "quarterly", "weekly", "daily"} {
					if cand != d.Accrual.Interval && !(cand == "daily" && acc.End-acc.Start > 100) {
						b.Accrual.Interval = cand
						break
					}
				}
			} else {
				b.Accrual.Start += ref.Day(rapid.IntRange(-40, 0).Draw(t, "bStartOff"))
			}
			c.Before = append(c.Before, b)
		}
	}
	return c
}

func TestC10(t *testing.T) {
	runProp(t, "C10", "accrual", func(t *rapid.T) C10Case { return drawC10(t, false) }, checkC10)
}

func TestC10CLI(t *testing.T) {
	runProp(t, "C10", "accrual", func(t *rapid.T) C10Case { return drawC10(t, true) }, checkC10)
}
