package props

import (
	"verifharness/gen"
	"verifharness/ref"
)

// shrinkDirectives proposes journals with one directive, booking, balance or
// annotation less (largest cuts first).
func shrinkDirectives(ds []ref.Directive) [][]ref.Directive {
	var out [][]ref.Directive
	n := len(ds)
	// halves and quarters first
	for _, chunk := range []int{n / 2, n / 4} {
		if chunk < 2 {
			continue
		}
		for s := 0; s+chunk <= n; s += chunk {
			out = append(out, append(append([]ref.Directive{}, ds[:s]...), ds[s+chunk:]...))
		}
	}
	for i := range ds {
		out = append(out, append(append([]ref.Directive{}, ds[:i]...), ds[i+1:]...))
	}
	for i, d := range ds {
		repl := func(nd ref.Directive) {
			c := append([]ref.Directive{}, ds...)
			c[i] = nd
			out = append(out, c)
		}
		if d.Kind == ref.KTrx {
			if len(d.Bookings) > 1 {
				for k := range d.Bookings {
					nd := d
					nd.Bookings = append(append([]ref.Booking{}, d.Bookings[:k]...), d.Bookings[k+1:]...)
					repl(nd)
				}
			}
			if d.Accrual != nil {
				nd := d
				nd.Accrual = nil
				repl(nd)
			}
			if d.HasPerf {
				nd := d
				nd.HasPerf, nd.Perf = false, nil
				repl(nd)
			}
			if len(d.Desc) > 2 {
				nd := d
				nd.Desc = "x"
				repl(nd)
			}
		}
		if d.Kind == ref.KAssert && len(d.Balances) > 1 {
			for k := range d.Balances {
				nd := d
				nd.Balances = append(append([]ref.Balance{}, d.Balances[:k]...), d.Balances[k+1:]...)
				repl(nd)
			}
		}
	}
	return out
}

// shrinkFlags proposes flag sets with one feature less.
func shrinkFlags(f gen.BalFlags) []gen.BalFlags {
	var out []gen.BalFlags
	add := func(mod func(*gen.BalFlags)) {
		g := f
		g.Mappings = append([]gen.Mapping{}, f.Mappings...)
		g.Remap = append([]string{}, f.Remap...)
		g.Accounts = append([]string{}, f.Accounts...)
		g.Commodities = append([]string{}, f.Commodities...)
		mod(&g)
		out = append(out, g)
	}
	if f.From != nil {
		add(func(g *gen.BalFlags) { g.From = nil })
	}
	if f.Last != 0 {
		add(func(g *gen.BalFlags) { g.Last = 0 })
	}
	if f.Diff {
		add(func(g *gen.BalFlags) { g.Diff = false })
	}
	if f.SortAlpha {
		add(func(g *gen.BalFlags) { g.SortAlpha = false })
	}
	if f.ShowCom != "" {
		add(func(g *gen.BalFlags) { g.ShowCom = "" })
	}
	if f.Valuation != "" {
		add(func(g *gen.BalFlags) { g.Valuation = ""; g.ShowCom = "" })
	}
	if f.Interval != 0 {
		add(func(g *gen.BalFlags) { g.Interval = 0 })
	}
	for i := range f.Mappings {
		i := i
		add(func(g *gen.BalFlags) { g.Mappings = append(g.Mappings[:i:i], g.Mappings[i+1:]...) })
	}
	if len(f.Remap) > 0 {
		add(func(g *gen.BalFlags) { g.Remap = nil })
	}
	if len(f.Accounts) > 0 {
		add(func(g *gen.BalFlags) { g.Accounts = nil })
	}
	if len(f.Commodities) > 0 {
		add(func(g *gen.BalFlags) { g.Commodities = nil })
	}
	if f.NoClose {
		add(func(g *gen.BalFlags) { g.NoClose = false })
	} else {
		add(func(g *gen.BalFlags) { g.NoClose = true })
	}
	return out
}
