//go:build !no_c08_fuzz

package props

import "testing"

// FuzzC08 is the coverage-guided twin of TestC08: the same library oracle on
// whatever bytes the fuzzer finds (most do not parse; those that do are layouts
// no renderer would produce).
func FuzzC08(f *testing.F) {
	seedJournals(f)
	f.Fuzz(func(t *testing.T, b []byte) {
		if len(b) > 64<<10 {
			t.Skip()
		}
		c := C08Case{Files: []C08File{{Name: "j.knut", Text: b, Source: "fuzz"}}}
		if o := checkC08(c); o.Violation != nil {
			t.Fatalf("VIOLATION property=C08 kind=%s: %s", o.Violation.Kind, o.Violation.Msg)
		}
	})
}
