//go:build !no_c06

package props

import (
	"fmt"
	"strings"
	"testing"

	"pgregory.net/rapid"

	"verifharness/gen"
	"verifharness/knutio"
	"verifharness/ref"
)

// C06 — output is a function of the input alone.

type C06Case struct {
	Files map[string]string `json:"files"`
	Argv  []string          `json:"argv"` // complete argument list
	Class string            `json:"class"`
	Runs  int               `json:"runs"`
	Ties  []string          `json:"ties,omitempty"`
}

func init() { Register("C06", "repeat-runs", checkC06) }

var c06Procs = []string{"1", "2", "16", "4", "3", "8"}

func checkC06(c C06Case) (o Outcome) {
	dir, cleanup := knutio.Materialise(c.Files)
	defer cleanup()
	o.Labels = append([]string{"cmd:" + c.Class}, c.Ties...)
	o.NonTrivial = len(c.Ties) > 0
	var first knutio.Result
	for i := 0; i < c.Runs; i++ {
		env := []string{fmt.Sprintf("KNUT_VERIF_SCHED=%d", i*7919), "GOMAXPROCS=" + c06Procs[i%len(c06Procs)]}
		r := knutio.Run(knutio.Opts{Dir: dir, Env: env}, c.Argv...)
		o.Evals++
		if r.TimedOut || r.Signaled {
			o.Violation = V("hang-or-signal", "knut %v (run %d): %s", c.Argv, i, r.Brief())
			return o
		}
		if i == 0 {
			first = r
			if r.Exit != 0 {
				o.Labels = append(o.Labels, "exit-nonzero")
			}
			continue
		}
		if r.Exit != first.Exit {
			o.Violation = V("exit-differs", "knut %v: run 0 exits %d, run %d exits %d\n--stderr 0--\n%s\n--stderr %d--\n%s", c.Argv, first.Exit, i, r.Exit, clip(first.Stderr, 600), i, clip(r.Stderr, 600)).With("cmd", c.Class)
			return o
		}
		if r.Stdout != first.Stdout {
			o.Violation = V("stdout-differs", "knut %v: stdout of run %d differs from run 0\n%s", c.Argv, i, diffBrief(first.Stdout, r.Stdout)).With("cmd", c.Class)
			return o
		}
	}
	return o
}

// diffBrief shows the first differing lines of two outputs.
func diffBrief(a, b string) string {
	la, lb := strings.Split(a, "\n"), strings.Split(b, "\n")
	var sb strings.Builder
	shown := 0
	for i := 0; i < len(la) || i < len(lb); i++ {
		var x, y string
		if i < len(la) {
			x = la[i]
		}
		if i < len(lb) {
			y = lb[i]
		}
		if x != y {
			fmt.Fprintf(&sb, "line %d:\n  run0: %s\n  runN: %s\n", i+1, clip(x, 200), clip(y, 200))
			shown++
			if shown >= 6 {
				break
			}
		}
	}
	return sb.String()
}

// c06Ties names the kinds of ties/alternatives present in an input.
func c06Ties(j ref.Journal, tree gen.Tree, class string, valued bool) []string {
	var ties []string
	// sibling accounts (equal sort weight in unvalued reports)
	parents := map[string]int{}
	for _, a := range j.Accounts {
		if i := strings.LastIndex(a, ":"); i > 0 {
			parents[a[:i]]++
		}
	}
	for _, n := range parents {
		if n >= 2 {
			ties = append(ties, "tie:sibling-accounts")
			break
		}
	}
	// same-day same-kind directives (and spread over several files)
	type dk struct {
		d ref.Day
		k string
	}
	seen := map[dk]int{}
	for _, d := range j.Directives {
		seen[dk{d.Date, d.Kind}]++
	}
	for k, n := range seen {
		if n >= 2 && k.k != ref.KTrx {
			ties = append(ties, "tie:same-day-same-kind")
			break
		}
	}
	if len(tree.Files) >= 2 {
		ties = append(ties, "tie:several-files")
	}
	// alternative price paths
	pairs := map[[2]string]bool{}
	for _, d := range j.Directives {
		if d.Kind == ref.KPrice {
			a, b := d.Com, d.Target
			if a > b {
				a, b = b, a
			}
			pairs[[2]string{a, b}] = true
		}
	}
	if len(pairs) >= len(j.Commodities) && len(j.Commodities) >= 3 {
		ties = append(ties, "tie:alternative-price-paths")
	}
	for _, d := range j.Directives {
		if d.HasPerf {
			ties = append(ties, "tie:performance-targets")
			break
		}
	}
	return ties
}

func drawC06(t *rapid.T) C06Case {
	cfg := gen.HistCfg{
		MaxActions: rapid.SampledFrom([]int{8, 15, 30}).Draw(t, "maxActions"),
		Accruals:   rapid.IntRange(0, 2).Draw(t, "accruals") == 0,
		Assertions: true, Closes: true, Perf: true,
		Prices:    1,
		MaxDec:    rapid.SampledFrom([]int{2, 4}).Draw(t, "maxDec"),
		Unicode:   rapid.IntRange(0, 5).Draw(t, "unicode") == 0,
		WideDates: true,
	}
	gen.MaybeLarge(t, &cfg, 4)
	j := gen.GenJournal(t, cfg)
	wide := rapid.IntRange(0, 7).Draw(t, "wide") == 0
	if wide {
		// many commodities and accounts first mentioned by several files at once
		j = gen.GenWideJournal(t)
	}
	// extra prices between arbitrary pairs: alternative paths, cycles
	if len(j.Commodities) >= 3 && rapid.IntRange(0, 1).Draw(t, "extraPrices") == 0 {
		lo, hi, _ := gen.DatesOf(j)
		n := rapid.IntRange(1, 4).Draw(t, "nExtra")
		for i := 0; i < n; i++ {
			a := rapid.SampledFrom(j.Commodities).Draw(t, "xa")
			b := rapid.SampledFrom(j.Commodities).Draw(t, "xb")
			if a == b {
				continue
			}
			d := lo + ref.Day(rapid.IntRange(0, int(hi-lo)).Draw(t, "xd"))
			j.Directives = append(j.Directives, ref.Directive{Kind: ref.KPrice, Date: d, Com: a, Target: b, Price: gen.DrawPrice(t)})
		}
	}
	damaged := false
	if !wide && rapid.IntRange(0, 5).Draw(t, "damaged") == 0 {
		// a journal that is rejected somewhere in the middle: what a command prints before it fails must not
		// depend on how far the concurrent stages got
		lo, hi, _ := gen.DatesOf(j)
		day := lo + ref.Day(rapid.IntRange(0, int(hi-lo)).Draw(t, "faultDay"))
		j.Directives = append(j.Directives, ref.Directive{Kind: ref.KAssert, Date: day, Balances: []ref.Balance{{Account: j.Accounts[0], Qty: "987654321.25", Com: j.Commodities[0]}}})
		damaged = true
	}
	if rapid.Bool().Draw(t, "shuffle") {
		j.Directives = gen.Shuffle(t, j.Directives)
	}
	tree := gen.SplitIntoTree(t, j.Directives, 6)
	if wide {
		tree = gen.SplitIntoTreeMin(t, gen.Shuffle(t, j.Directives), 4, 8)
	}
	if !wide && rapid.IntRange(0, 14).Draw(t, "deepChain") == 0 {
		tree = gen.DeepChainTree(t, j.Directives, rapid.IntRange(17, 40).Draw(t, "chainDepth"))
	} else if !wide && rapid.IntRange(0, 9).Draw(t, "deepDiamond") == 0 {
		// a deep include chain ending in two sibling files one of which also includes the other (a legal
		// diamond: the shared file holds transactions only, so including it twice keeps the journal valid)
		tree = c06DeepDiamond(t, j)
	}
	c := C06Case{Files: tree.Files, Runs: 6}
	if thorough() {
		c.Runs = 24
	}
	v := rapid.SampledFrom(j.Commodities).Draw(t, "valuation")
	portfolio := !wide && rapid.IntRange(0, 5).Draw(t, "portfolioJournal") == 0
	if portfolio {
		// an investment journal with several priced holdings (the C20 generator), for the portfolio commands
		pc := drawC20(t)
		j = ref.Journal{Directives: pc.Directives}
		for _, d := range pc.Directives {
			if d.Kind == ref.KOpen {
				j.Accounts = append(j.Accounts, d.Account)
			}
		}
		tree = gen.SplitIntoTree(t, pc.Directives, 4)
		c = C06Case{Files: tree.Files, Runs: c.Runs}
		v = pc.V
	}
	c.Class = rapid.SampledFrom([]string{"balance", "balance", "balance", "print", "print", "check-write", "transcode", "weights", "returns", "register", "register"}).Draw(t, "class")
	if wide {
		c.Class = rapid.SampledFrom([]string{"balance", "balance", "print", "check-write", "register"}).Draw(t, "wideClass")
	}
	if portfolio {
		c.Class = rapid.SampledFrom([]string{"weights", "weights", "returns"}).Draw(t, "portfolioClass")
	}
	valued := false
	switch c.Class {
	case "balance":
		f := gen.DrawBalFlags(t, j, gen.FlagOpts{Mappings: true, Hide: true, Remap: true, Filters: true, Valuation: !wide})
		valued = f.Valuation != ""
		c.Argv = append(append([]string{"balance"}, f.Args()...), tree.Main)
	case "register":
		f := gen.DrawBalFlags(t, j, gen.FlagOpts{Mappings: true, Remap: true, Valuation: !wide})
		args := []string{"register", "--color=false"}
		if f.From != nil {
			args = append(args, "--from", f.From.String())
		}
		if f.To != nil {
			args = append(args, "--to", f.To.String())
		}
		if fl := ref.IntervalFlags[f.Interval]; fl != "" {
			args = append(args, fl)
		}
		if f.Last != 0 {
			args = append(args, "--last", fmt.Sprint(f.Last))
		}
		if f.Valuation != "" {
			args = append(args, "-v", f.Valuation)
			valued = true
		}
		for _, m := range f.Mappings {
			args = append(args, "-m", m.Arg())
		}
		for _, r := range f.Remap {
			args = append(args, "--remap", r)
		}
		for _, fl := range []string{"-s", "-c", "-d", "-a", "-k"} {
			if rapid.IntRange(0, 2).Draw(t, "reg"+fl) == 0 {
				args = append(args, fl)
			}
		}
		if rapid.IntRange(0, 3).Draw(t, "regSource") == 0 && len(j.Accounts) > 0 {
			args = append(args, "--source", "^"+ref.AccountType(rapid.SampledFrom(j.Accounts).Draw(t, "regSourceAcc")))
		}
		if rapid.IntRange(0, 3).Draw(t, "regDest") == 0 && len(j.Accounts) > 0 {
			args = append(args, "--dest", "^"+ref.AccountType(rapid.SampledFrom(j.Accounts).Draw(t, "regDestAcc")))
		}
		c.Argv = append(args, tree.Main)
	case "print":
		c.Argv = []string{"print", tree.Main}
	case "check-write":
		c.Argv = []string{"check", "--write", tree.Main}
	case "transcode":
		c.Argv = []string{"transcode", "-v", v, tree.Main}
		valued = true
	case "weights", "returns":
		f := gen.DrawBalFlags(t, j, gen.FlagOpts{})
		args := []string{"portfolio", c.Class, "-v", v}
		if f.From != nil {
			args = append(args, "--from", f.From.String())
		}
		if f.To != nil {
			args = append(args, "--to", f.To.String())
		}
		if fl := ref.IntervalFlags[f.Interval]; fl != "" {
			args = append(args, fl)
		}
		if f.Last != 0 {
			args = append(args, "--last", fmt.Sprint(f.Last))
		}
		if c.Class == "weights" {
			args = append(args, "--color=false")
			if rapid.Bool().Draw(t, "wcsv") {
				args = append(args, "--csv")
			}
			if rapid.Bool().Draw(t, "wsort") {
				args = append(args, "-a")
			}
			if rapid.IntRange(0, 1).Draw(t, "wdigits") == 0 {
				// enough digits to see the last bits of the floating point sums
				args = append(args, "--digits", rapid.SampledFrom([]string{"2", "14", "16", "16"}).Draw(t, "wdigitsV"))
			}
			if rapid.IntRange(0, 2).Draw(t, "wmap") == 0 {
				args = append(args, "-m", rapid.SampledFrom([]string{"1", "1,.", "1:1,.", "0,Other"}).Draw(t, "wmapv"))
			}
		}
		c.Argv = append(args, tree.Main)
		valued = true
	}
	c.Ties = c06Ties(j, tree, c.Class, valued)
	if wide {
		c.Ties = append(c.Ties, "tie:many-new-names-in-several-files")
	}
	if damaged {
		c.Ties = append(c.Ties, "tie:failure-mid-pipeline")
	}
	return c
}

// c06DeepDiamond: main → l1 → … → l(depth) → {f, g}, f → g; opens and prices stay in main.
func c06DeepDiamond(t *rapid.T, j ref.Journal) gen.Tree {
	depth := rapid.IntRange(3, 7).Draw(t, "chainDepth")
	var head, shared, rest []ref.Directive
	for _, d := range j.Directives {
		switch {
		case d.Kind != ref.KTrx:
			head = append(head, d)
		case d.Accrual == nil && len(shared) < 2:
			shared = append(shared, d)
		default:
			rest = append(rest, d)
		}
	}
	files := map[string]string{}
	name := func(i int) string { return fmt.Sprintf("l%d/c%d.knut", i, i) }
	files["main.knut"] = ref.RenderAll(head) + "include \"" + name(1) + "\"\n"
	for i := 1; i <= depth; i++ {
		var body string
		if i == 1 {
			body = ref.RenderAll(rest)
		}
		if i < depth {
			// relative to the directory of the including file
			body += fmt.Sprintf("include \"../l%d/c%d.knut\"\n", i+1, i+1)
		} else {
			body += "include \"f.knut\"\ninclude \"g.knut\"\n"
		}
		files[name(i)] = body
	}
	files[fmt.Sprintf("l%d/f.knut", depth)] = "include \"g.knut\"\n"
	files[fmt.Sprintf("l%d/g.knut", depth)] = ref.RenderAll(shared)
	return gen.Tree{Files: files, Main: "main.knut", Depth: depth + 1}
}

func TestC06(t *testing.T) {
	runProp(t, "C06", "repeat-runs", drawC06, checkC06)
}
