//go:build !no_c17

package props

import (
	"bytes"
	"encoding/csv"
	"fmt"
	"math/big"
	"strconv"
	"strings"
	"testing"
	"time"
	"unicode"
	"unicode/utf8"

	"github.com/sboehler/knut/lib/common/table"
	"github.com/shopspring/decimal"
	"pgregory.net/rapid"

	"verifharness/gen"
	"verifharness/knutio"
	"verifharness/ref"
	"verifharness/stats"
)

// C17 — rendered balance tables are rectangular and numerically faithful.
//
// Library level: tables built through the public API of lib/common/table,
// rendered with TextRenderer{Color:false} and CSVRenderer, compared with an
// independent formatter (exact big.Rat rounding, own digit grouping).
// CLI level: `knut balance --color=false ...` versus the same with `--csv`.

// c17ExcludeThousandsDeepDecimals: with Thousands the renderer divides by
// 1000 with shopspring's DivisionPrecision (16 decimals, rounded) BEFORE it
// rounds to the requested digits, so an amount with >= 14 decimals can be
// rounded twice (499.99999999999995 with -k --digits 0 prints 1, the exact
// result is 0; see corpus/C17/thousands-double-rounding.json). Such amounts
// are excluded by construction (the generator cuts amounts to 13 decimals when
// Thousands is on; the check itself still judges them, so the corpus entry
// keeps failing until knut is fixed) so that the search continues behind the
// finding.
var c17ExcludeThousandsDeepDecimals = false // the defect is fixed in /repo (fix: divide by 1000 exactly for --thousands); the class is generated again

const c17MaxDecimals = 18

type C17Cell struct {
	K string `json:"k"`           // "e" empty, "t" text (aligned), "i" indented text, "n" number
	S string `json:"s,omitempty"` // text content / exact decimal string of the amount
	A int    `json:"a,omitempty"` // "t": alignment 0 left 1 right 2 center; "i": indent
	M int    `json:"m,omitempty"` // "n": how the decimal.Decimal is constructed (see c17Decimal)
}

type C17Row struct {
	K     string    `json:"k"` // "sep", "blank", "row"
	Cells []C17Cell `json:"cells,omitempty"`
}

type C17Case struct {
	Groups    []int    `json:"groups"`
	Rows      []C17Row `json:"rows"`
	Round     int      `json:"round"`
	Thousands bool     `json:"thousands"`
}

func init() {
	Register("C17", "table", checkC17)
	Register("C17", "cli-text-vs-csv", checkC17CLI)
}

// ---------------------------------------------------------------- reference formatting

// c17Group renders |x| (which has at most n decimals) with exactly n decimals
// and the integer digits grouped in threes from the decimal point.
func c17Group(x *big.Rat, n int) string {
	s := ref.Abs(x).FloatString(n)
	ip, fp := s, ""
	if i := strings.IndexByte(s, '.'); i >= 0 {
		ip, fp = s[:i], s[i:]
	}
	var b strings.Builder
	for i := 0; i < len(ip); i++ {
		if i > 0 && (len(ip)-i)%3 == 0 {
			b.WriteByte(',')
		}
		b.WriteByte(ip[i])
	}
	return b.String() + fp
}

var c17Thousand = big.NewRat(1000, 1)

// c17Expected returns the rounded displayed value and the accepted renderings
// of a non-zero amount.
func c17Expected(amt *big.Rat, round int, thousands bool) (r *big.Rat, accepted []string) {
	x := amt
	if thousands {
		x = new(big.Rat).Quo(amt, c17Thousand)
	}
	r = ref.RoundHalfAway(x, round)
	g := c17Group(r, round)
	switch {
	case r.Sign() < 0:
		return r, []string{"-" + g}
	case r.Sign() > 0:
		return r, []string{g}
	}
	// A non-zero amount that rounds to zero. Read literally, the cell must equal
	// the rounded amount (0.00 with n decimals); only ZERO AMOUNTS are blank, so a
	// blank cell is not accepted here. "Negative amounts carry a minus sign" and
	// "equals the rounded amount" do not decide between "-0.00" and "0.00" for a
	// negative amount (knut prints "0.00"), so both are accepted.
	accepted = []string{g}
	if amt.Sign() < 0 {
		accepted = append(accepted, "-"+g)
	}
	return r, accepted
}

// c17NumCell judges the text of one numeric cell (already trimmed).
func c17NumCell(cell string, amt *big.Rat, round int, thousands bool) *Violation {
	if amt.Sign() == 0 {
		if cell != "" {
			return V("zero-not-blank", "a zero amount is rendered as %q, expected a blank cell", cell)
		}
		return nil
	}
	r, accepted := c17Expected(amt, round, thousands)
	for _, a := range accepted {
		if cell == a {
			return nil
		}
	}
	want := accepted[0]
	kind := "num-grouping"
	plain := strings.ReplaceAll(cell, ",", "")
	got, ok := ref.ParseDec(plain)
	switch {
	case cell == "":
		kind = "num-blank"
	case !ok || !c17PlainDecimal(plain):
		kind = "num-malformed"
	case got.Cmp(r) != 0:
		kind = "num-value"
		if thousands && ref.Decimals(amt) > 13 {
			// amount/1000 needs more than the 16 decimals decimal.Div keeps (see c17ExcludeThousandsDeepDecimals)
			kind = "thousands-double-rounding"
		}
	case got.Sign() == 0 && strings.HasPrefix(cell, "-"):
		kind = "num-sign"
	case c17DecimalsOf(plain) != round:
		kind = "num-decimals"
	}
	th := ""
	if thousands {
		th = " /1000"
	}
	return V(kind, "amount %s%s rounded half away from zero to %d digits is %s, the cell shows %q",
		ref.DecString(amt), th, round, want, cell).
		With("amount", ref.DecString(amt)).With("round", strconv.Itoa(round)).
		With("thousands", strconv.FormatBool(thousands)).With("got", cell).With("want", want)
}

func c17DecimalsOf(s string) int {
	if i := strings.IndexByte(s, '.'); i >= 0 {
		return len(s) - i - 1
	}
	return 0
}

// c17PlainDecimal: -?digits(.digits)?
func c17PlainDecimal(s string) bool {
	s = strings.TrimPrefix(s, "-")
	ip, fp, hasDot := strings.Cut(s, ".")
	if ip == "" || (hasDot && fp == "") {
		return false
	}
	for _, c := range ip + fp {
		if c < '0' || c > '9' {
			return false
		}
	}
	return true
}

// c17IsTie: x sits exactly on a rounding boundary at n digits.
func c17IsTie(x *big.Rat, n int) bool {
	y := new(big.Rat).Mul(x, new(big.Rat).SetInt(ref.Pow10(n)))
	y.Mul(y, big.NewRat(2, 1))
	return y.IsInt() && y.Num().Bit(0) == 1
}

// ---------------------------------------------------------------- reading a rendered text table

type c17Line struct {
	sep   bool
	cells []string // trimmed cell texts (nil for separator lines)
}

// c17Grid checks rectangularity and separator alignment of a rendered text
// table and cuts it into cells. Trailing empty lines are not part of the table.
// A line starting with '+' is a separator line (its column separators are the
// '+' runes), any other line has '|' as column separator.
func c17Grid(text string) (lines []c17Line, v *Violation) {
	raw := strings.Split(text, "\n")
	for len(raw) > 0 && raw[len(raw)-1] == "" {
		raw = raw[:len(raw)-1]
	}
	var width0 int
	var pos0 []int
	// Which characters draw the frame is not part of the statement: every line starts with its column mark; of the
	// (at most two) different first characters the one whose lines never carry a letter or digit marks separator
	// lines. '+' and '|' are assumed only when the table itself cannot tell (no line with content).
	sepMark, colMark := '+', '|'
	{
		hasContent := map[rune]bool{}
		var order []rune
		for _, l := range raw {
			r, _ := utf8.DecodeRuneInString(l)
			if l == "" || unicode.IsLetter(r) || unicode.IsDigit(r) || unicode.IsSpace(r) {
				continue
			}
			if _, ok := hasContent[r]; !ok {
				hasContent[r] = false
				order = append(order, r)
			}
			if strings.IndexFunc(l, func(x rune) bool { return unicode.IsLetter(x) || unicode.IsDigit(x) }) >= 0 {
				hasContent[r] = true
			}
		}
		switch {
		case len(order) == 2 && hasContent[order[0]] && !hasContent[order[1]]:
			colMark, sepMark = order[0], order[1]
		case len(order) == 2 && hasContent[order[1]] && !hasContent[order[0]]:
			colMark, sepMark = order[1], order[0]
		case len(order) == 1 && hasContent[order[0]]:
			colMark, sepMark = order[0], 0
		}
	}
	for li, l := range raw {
		if !utf8.ValidString(l) {
			return nil, V("invalid-utf8", "line %d is not valid UTF-8: %q", li+1, l)
		}
		rs := []rune(l)
		sepLine := len(rs) > 0 && rs[0] == sepMark
		mark := colMark
		if sepLine {
			mark = sepMark
		}
		var pos []int
		for i, r := range rs {
			if r == mark {
				pos = append(pos, i)
			}
		}
		if li == 0 {
			width0, pos0 = len(rs), pos
		}
		if len(rs) != width0 {
			return nil, V("ragged", "line %d is %d runes wide, line 1 is %d runes wide\n%s", li+1, len(rs), width0, clip(text, 3000)).
				With("line", strconv.Itoa(li+1))
		}
		if fmt.Sprint(pos) != fmt.Sprint(pos0) {
			return nil, V("misaligned", "column separators of line %d sit at rune offsets %v, those of line 1 at %v\n%s", li+1, pos, pos0, clip(text, 3000)).
				With("line", strconv.Itoa(li+1))
		}
		ln := c17Line{sep: sepLine}
		if !sepLine {
			for k := 0; k+1 < len(pos); k++ {
				ln.cells = append(ln.cells, strings.TrimSpace(string(rs[pos[k]+1:pos[k+1]])))
			}
		}
		lines = append(lines, ln)
	}
	return lines, nil
}

// ---------------------------------------------------------------- library level

func c17Width(c C17Case) int {
	w := 0
	for _, g := range c.Groups {
		if g > 0 {
			w += g
		}
	}
	return w
}

// c17Decimal builds the decimal.Decimal of an exact decimal string in one of
// several internal representations (coefficient/exponent pairs), all of the
// same value.
func c17Decimal(s string, mode int) decimal.Decimal {
	d := decimal.RequireFromString(s)
	switch mode {
	case 1: // positive exponent: 12000 = 12 × 10^3
		if !strings.Contains(s, ".") {
			t := strings.TrimRight(s, "0")
			if z := len(s) - len(t); z > 0 && t != "" && t != "-" {
				co, _ := new(big.Int).SetString(t, 10)
				d = decimal.NewFromBigInt(co, int32(z))
			}
		}
	case 2: // result of an exact division (exponent -16)
		if c17DecimalsOf(s) <= 12 {
			seven := decimal.New(7, 0)
			d = d.Mul(seven).Div(seven)
		}
	case 3: // padded with trailing zeros
		if strings.Contains(s, ".") {
			d = decimal.RequireFromString(s + "000")
		} else {
			d = decimal.RequireFromString(s + ".00")
		}
	}
	// the harness must hand knut exactly the amount it reasons about
	got := new(big.Rat).SetInt(d.Coefficient())
	if e := int(d.Exponent()); e >= 0 {
		got.Mul(got, new(big.Rat).SetInt(ref.Pow10(e)))
	} else {
		got.Quo(got, new(big.Rat).SetInt(ref.Pow10(-e)))
	}
	if got.Cmp(ref.R(s)) != 0 {
		panic(fmt.Sprintf("harness: decimal construction mode %d changed %s into %s", mode, s, d.String()))
	}
	return d
}

// c17Normalise cuts rows to the table width (robustness against hand-edited
// or shrunk cases) and drops unusable shapes.
func c17Normalise(c C17Case) (C17Case, bool) {
	w := c17Width(c)
	if w < 1 || c.Round < 0 || c.Round > 8 {
		return c, false
	}
	var gs []int
	for _, g := range c.Groups {
		if g > 0 {
			gs = append(gs, g)
		}
	}
	c.Groups = gs
	rows := make([]C17Row, 0, len(c.Rows))
	for _, r := range c.Rows {
		if r.K == "row" {
			if len(r.Cells) == 0 {
				continue
			}
			if len(r.Cells) > w {
				r.Cells = r.Cells[:w]
			}
		}
		rows = append(rows, r)
	}
	c.Rows = rows
	return c, len(rows) > 0
}

func checkC17(c C17Case) (o Outcome) {
	c, ok := c17Normalise(c)
	if !ok {
		o.Labels = []string{"degenerate"}
		return o
	}
	w := c17Width(c)
	// expected cell matrix: kind per cell after FillEmpty
	type xcell struct {
		kind string
		text string
		amt  *big.Rat
	}
	var exp [][]xcell // nil entry = separator row
	labels := map[string]bool{}
	for _, r := range c.Rows {
		switch r.K {
		case "sep":
			exp = append(exp, nil)
			labels["row:sep"] = true
		case "blank":
			exp = append(exp, make([]xcell, w))
			for i := range exp[len(exp)-1] {
				exp[len(exp)-1][i].kind = "e"
			}
			labels["row:blank"] = true
		default:
			row := make([]xcell, w)
			for i := range row {
				row[i].kind = "e"
			}
			if len(r.Cells) < w {
				labels["fill-empty"] = true
			}
			for i, cl := range r.Cells {
				switch cl.K {
				case "t", "i":
					if strings.ContainsAny(cl.S, "|\n\r") {
						o.Labels = []string{"degenerate"}
						return o
					}
					row[i] = xcell{kind: cl.K, text: cl.S}
					if utf8.RuneCountInString(cl.S) != len(cl.S) {
						labels["text:multibyte"] = true
					}
					if cl.K == "i" && cl.A > 0 {
						labels["text:indented"] = true
					}
					if cl.K == "t" {
						labels["text:align"+strconv.Itoa(cl.A)] = true
					}
				case "n":
					a, ok := ref.ParseDec(cl.S)
					if !ok || !c17PlainDecimal(cl.S) || c17DecimalsOf(cl.S) > c17MaxDecimals {
						o.Labels = []string{"degenerate"}
						return o
					}
					row[i] = xcell{kind: "n", amt: a}
				}
			}
			exp = append(exp, row)
		}
	}

	// build and render with knut
	var text, csvOut bytes.Buffer
	var errText, errCSV error
	if p := Guard("C17", "table", c, 20*time.Second, func() {
		tbl := table.New(c.Groups...)
		for _, r := range c.Rows {
			switch r.K {
			case "sep":
				tbl.AddSeparatorRow()
			case "blank":
				tbl.AddEmptyRow()
			default:
				row := tbl.AddRow()
				for _, cl := range r.Cells {
					switch cl.K {
					case "t":
						row.AddText(cl.S, table.Alignment(cl.A%3))
					case "i":
						row.AddIndented(cl.S, cl.A)
					case "n":
						row.AddDecimal(c17Decimal(cl.S, cl.M))
					default:
						row.AddEmpty()
					}
				}
				row.FillEmpty()
			}
		}
		errText = (&table.TextRenderer{Color: false, Thousands: c.Thousands, Round: int32(c.Round)}).Render(tbl, &text)
		errCSV = (&table.CSVRenderer{}).Render(tbl, &csvOut)
	}); p != nil {
		if s, ok := p.(string); ok && strings.HasPrefix(s, "harness:") {
			panic(s)
		}
		o.Violation = V("render-panic", "rendering panicked: %v", p)
		return o
	}
	if errText != nil || errCSV != nil {
		o.Violation = V("render-error", "rendering into a buffer failed: text=%v csv=%v", errText, errCSV)
		return o
	}

	// ---- text: rectangular, aligned, numerically faithful
	lines, v := c17Grid(text.String())
	if v != nil {
		o.Violation = v
		return o
	}
	if len(lines) != len(exp) {
		o.Violation = V("line-count", "%d table rows were rendered as %d lines\n%s", len(exp), len(lines), clip(text.String(), 3000))
		return o
	}
	natural := make([]int, w) // natural width of the numeric content per column
	numeric := make([]bool, w)
	interesting := false
	for ri, row := range exp {
		ln := lines[ri]
		if (row == nil) != ln.sep {
			o.Violation = V("row-kind", "row %d: separator row expected=%v rendered=%v\n%s", ri+1, row == nil, ln.sep, clip(text.String(), 3000))
			return o
		}
		if row == nil {
			continue
		}
		if len(ln.cells) != w {
			o.Violation = V("column-count", "row %d has %d cells, the table has %d columns\n%s", ri+1, len(ln.cells), w, clip(text.String(), 3000))
			return o
		}
		for ci, x := range row {
			if x.kind != "n" {
				continue
			}
			if v := c17NumCell(ln.cells[ci], x.amt, c.Round, c.Thousands); v != nil {
				o.Violation = v.With("row", strconv.Itoa(ri+1)).With("col", strconv.Itoa(ci+1))
				v.Msg += "\n" + clip(text.String(), 3000)
				return o
			}
			if x.amt.Sign() == 0 {
				labels["amt:zero"] = true
				continue
			}
			numeric[ci] = true
			r, acc := c17Expected(x.amt, c.Round, c.Thousands)
			if n := len(acc[0]); n > natural[ci] {
				natural[ci] = n
			}
			disp := x.amt
			if c.Thousands {
				disp = new(big.Rat).Quo(x.amt, c17Thousand)
			}
			if x.amt.Sign() < 0 {
				labels["amt:neg"] = true
			}
			if r.Sign() == 0 {
				labels["amt:rounds-to-zero"] = true
				if x.amt.Sign() < 0 {
					labels["amt:neg-rounds-to-zero"] = true
				}
			}
			if c17IsTie(disp, c.Round) {
				labels["amt:tie"] = true
				interesting = true
			}
			if strings.Contains(acc[0], ",") {
				labels["amt:grouped"] = true
				interesting = true
				if x.amt.Sign() < 0 {
					labels["amt:neg-grouped"] = true
				}
			}
			if len(c17Group(r, 0)) != len(c17Group(ref.TruncN(disp, 0), 0)) {
				labels["amt:carry-new-digit"] = true
			}
			if d := ref.Decimals(x.amt); d > 8 {
				labels["amt:dec>8"] = true
			}
			if ref.Abs(x.amt).Cmp(new(big.Rat).SetInt(ref.Pow10(12))) >= 0 {
				labels["amt:>=1e12"] = true
			}
			if ref.Abs(x.amt).Cmp(big.NewRat(1, 1000000)) < 0 {
				labels["amt:<1e-6"] = true
			}
		}
	}

	// ---- CSV: exact amounts at the same positions once blank and separator rows are dropped
	rd := csv.NewReader(strings.NewReader(csvOut.String()))
	rd.FieldsPerRecord = -1
	recs, err := rd.ReadAll()
	if err != nil {
		o.Violation = V("csv-unreadable", "CSV output is not readable: %v\n%s", err, clip(csvOut.String(), 3000))
		return o
	}
	var kept [][]xcell
	var keptIdx []int
	for ri, row := range exp {
		if row == nil {
			continue
		}
		blank := true
		for _, x := range row {
			if x.kind == "n" || (x.kind != "e" && x.text != "") {
				blank = false
			}
		}
		if !blank {
			kept = append(kept, row)
			keptIdx = append(keptIdx, ri+1)
		}
	}
	if len(recs) != len(kept) {
		o.Violation = V("csv-row-count", "CSV has %d records, the table has %d rows that are neither blank nor separators\n%s", len(recs), len(kept), clip(csvOut.String(), 3000))
		return o
	}
	for k, row := range kept {
		rec := recs[k]
		if len(rec) != w {
			o.Violation = V("csv-column-count", "CSV record %d has %d fields, the table has %d columns\n%s", k+1, len(rec), w, clip(csvOut.String(), 3000))
			return o
		}
		for ci, x := range row {
			f := rec[ci]
			switch x.kind {
			case "e":
				if f != "" {
					o.Violation = V("csv-cell", "CSV record %d field %d is %q, the table cell (row %d) is empty", k+1, ci+1, f, keptIdx[k])
					return o
				}
			case "t", "i":
				// the label, not its indentation or padding, is what the record carries
				if strings.TrimSpace(f) != strings.TrimSpace(x.text) {
					o.Violation = V("csv-cell", "CSV record %d field %d is %q, the table cell (row %d) holds the text %q", k+1, ci+1, f, keptIdx[k], x.text)
					return o
				}
			case "n":
				if v := c17CSVNum(f, x.amt); v != nil {
					o.Violation = v.With("record", strconv.Itoa(k+1)).With("field", strconv.Itoa(ci+1))
					return o
				}
			}
		}
	}

	nNum, diffWidth := 0, false
	first := -1
	for ci := range numeric {
		if !numeric[ci] {
			continue
		}
		nNum++
		if first < 0 {
			first = natural[ci]
		} else if natural[ci] != first {
			diffWidth = true
		}
	}
	o.NonTrivial = nNum >= 2 && diffWidth && interesting
	labels["round:"+strconv.Itoa(c.Round)] = true
	labels["thousands:"+strconv.FormatBool(c.Thousands)] = true
	labels["groups:"+strconv.Itoa(len(c.Groups))] = true
	labels["numcols:"+strconv.Itoa(min(nNum, 3))] = true
	if o.NonTrivial {
		labels["nontrivial"] = true
	}
	o.Labels = sortedKeys(labels)
	return o
}

// c17CSVNum: a CSV numeric field must be a plain decimal equal to the exact amount.
func c17CSVNum(f string, amt *big.Rat) *Violation {
	if !c17PlainDecimal(f) {
		return V("csv-not-decimal", "CSV field %q is not a plain decimal (amount %s)", f, ref.DecString(amt)).
			With("amount", ref.DecString(amt)).With("got", f)
	}
	got, _ := ref.ParseDec(f)
	if got == nil || got.Cmp(amt) != 0 {
		return V("csv-value", "CSV field %q differs from the exact amount %s", f, ref.DecString(amt)).
			With("amount", ref.DecString(amt)).With("got", f)
	}
	return nil
}

// ---- generator

var c17Texts = []string{
	"Assets", "Bank", "Total (A+L)", "Total (E+I+E)", "Delta", "Account", "Comm", "CHF", "2023-12-31",
	"Börse", "口座", "Épargne", "Ärzte", "Ж1", "円", "💰", "été", "naïve café", "a b", "x,y", "q\"uote\"", "-", "+", "1,234.50", "",
	"a-very-long-account-segment-name", "Ä", "ß",
}

var c17TextRunes = []rune("abcXYZ019 -_:.,+'\"äöüÉж口座円💰́")

func drawC17Text(t *rapid.T) string {
	if gen.Rare(t, "longText", 4) {
		// an account segment or description longer than any column a terminal shows whole
		return strings.Repeat(rapid.SampledFrom([]string{"Sammelkonto", "Zürich", "口座", "W", "ab "}).Draw(t, "longTok"), rapid.IntRange(8, 40).Draw(t, "longN"))
	}
	if rapid.IntRange(0, 9).Draw(t, "textKind") < 7 {
		return rapid.SampledFrom(c17Texts).Draw(t, "text")
	}
	return strings.TrimSpace(rapid.StringOfN(rapid.RuneFrom(c17TextRunes), 0, 14, -1).Draw(t, "textRunes"))
}

var c17IntParts = []string{"0", "0", "1", "9", "99", "999", "1000", "9999", "99999", "999999", "999499", "12345", "1234567", "999999999", "999999999999", "999999999999999", "100000000000000"}
var c17Tails = []string{"5", "5", "5", "4", "49", "51", "05", "50", "45", "55", "499999", "500001", "949", "95"}

func c17Digits(t *rapid.T, n int, label string) string {
	if n <= 0 {
		return ""
	}
	switch rapid.IntRange(0, 3).Draw(t, label+"Kind") {
	case 0:
		return strings.Repeat("9", n)
	case 1:
		return strings.Repeat("0", n)
	}
	var b strings.Builder
	for i := 0; i < n; i++ {
		b.WriteByte(byte('0' + rapid.IntRange(0, 9).Draw(t, label)))
	}
	return b.String()
}

// drawC17Amount draws the exact decimal string of an amount.
func drawC17Amount(t *rapid.T, round int, thousands bool) string {
	var x *big.Rat // non-negative value
	scaled := func(digits string, decimals int) *big.Rat {
		n, _ := new(big.Int).SetString(digits, 10)
		return new(big.Rat).SetFrac(n, ref.Pow10(decimals))
	}
	switch cls := rapid.IntRange(0, 11).Draw(t, "amtClass"); {
	case cls == 0:
		return rapid.SampledFrom([]string{"0", "-0", "0.000", "0.00000000"}).Draw(t, "zero")
	case cls <= 4:
		// the DISPLAYED value (amount, or amount/1000) sits on or next to a rounding boundary
		ip := rapid.SampledFrom(c17IntParts).Draw(t, "intPart")
		fp := c17Digits(t, round, "fracDigit")
		tail := rapid.SampledFrom(c17Tails).Draw(t, "tail")
		x = scaled(ip+fp+tail, round+len(tail))
		if thousands {
			x.Mul(x, c17Thousand)
		}
	case cls <= 6:
		// magnitudes 1e-8 … 1e15
		e := rapid.IntRange(-8, 15).Draw(t, "exp10")
		m := strconv.Itoa(rapid.IntRange(1, 9).Draw(t, "lead")) + c17Digits(t, rapid.IntRange(0, 6).Draw(t, "mantLen"), "mant")
		x = scaled(m, len(m)-1)
		if e >= 0 {
			x.Mul(x, new(big.Rat).SetInt(ref.Pow10(e)))
		} else {
			x.Quo(x, new(big.Rat).SetInt(ref.Pow10(-e)))
		}
	case cls == 7:
		// below half a unit of the last displayed digit: rounds to zero
		reff := round
		if thousands {
			reff -= 3
		}
		m := rapid.SampledFrom([]string{"1", "4", "49", "499", "05", "001"}).Draw(t, "tiny")
		x = scaled(m, len(m))
		if reff >= 0 {
			x.Quo(x, new(big.Rat).SetInt(ref.Pow10(reff)))
		} else {
			x.Mul(x, new(big.Rat).SetInt(ref.Pow10(-reff)))
		}
	case cls <= 10:
		ip := strconv.FormatInt(rapid.Int64Range(0, []int64{9, 999, 99999, 9999999, 999999999999}[rapid.IntRange(0, 4).Draw(t, "intMag")]).Draw(t, "int"), 10)
		dec := rapid.SampledFrom([]int{0, 0, 1, 2, 2, 3, 4, 8, 8}).Draw(t, "dec")
		x = scaled(ip+c17Digits(t, dec, "genFrac"), dec)
	default:
		dec := rapid.IntRange(9, c17MaxDecimals).Draw(t, "deepDec")
		x = scaled(strconv.Itoa(rapid.IntRange(0, 1000).Draw(t, "deepInt"))+c17Digits(t, dec, "deepFrac"), dec)
	}
	if thousands && c17ExcludeThousandsDeepDecimals && ref.Decimals(x) > 13 {
		stats.Get("C17").Excluded("thousands-double-rounding")
		x = ref.TruncN(x, 13)
	}
	x = ref.TruncN(x, c17MaxDecimals)
	if x.Cmp(new(big.Rat).SetInt(ref.Pow10(16))) >= 0 {
		x = new(big.Rat).SetInt(ref.Pow10(15))
	}
	s := ref.DecString(x)
	if rapid.IntRange(0, 4).Draw(t, "neg") < 2 {
		s = "-" + s
	}
	return s
}

func drawC17(t *rapid.T) C17Case {
	c := C17Case{
		Round:     rapid.IntRange(0, 8).Draw(t, "round"),
		Thousands: rapid.Bool().Draw(t, "thousands"),
	}
	switch rapid.IntRange(0, 5).Draw(t, "shape") {
	case 0: // the shape of a balance report
		c.Groups = []int{1, 1, rapid.IntRange(1, 4).Draw(t, "dates")}
	case 1:
		c.Groups = []int{1, rapid.IntRange(1, 4).Draw(t, "dates")}
	default:
		c.Groups = rapid.SliceOfN(rapid.IntRange(1, 3), 1, 3).Draw(t, "groups")
	}
	w := c17Width(c)
	cell := func(col int) *rapid.Generator[C17Cell] {
		return rapid.Custom(func(t *rapid.T) C17Cell {
			k := rapid.IntRange(0, 9).Draw(t, "cellKind")
			textCol := col == 0 || (col == 1 && len(c.Groups) == 3 && c.Groups[0] == 1 && c.Groups[1] == 1)
			if textCol {
				k = []int{0, 0, 0, 0, 1, 1, 1, 2, 9, 9}[k]
			}
			switch {
			case k <= 1:
				return C17Cell{K: "t", S: drawC17Text(t), A: rapid.IntRange(0, 2).Draw(t, "align")}
			case k == 2:
				return C17Cell{K: "i", S: drawC17Text(t), A: rapid.SampledFrom([]int{0, 2, 2, 4, 6, 11}).Draw(t, "indent")}
			case k <= 8:
				return C17Cell{K: "n", S: drawC17Amount(t, c.Round, c.Thousands), M: rapid.IntRange(0, 3).Draw(t, "mode")}
			}
			return C17Cell{K: "e"}
		})
	}
	row := rapid.Custom(func(t *rapid.T) C17Row {
		switch k := rapid.IntRange(0, 9).Draw(t, "rowKind"); {
		case k == 0:
			return C17Row{K: "sep"}
		case k == 1:
			return C17Row{K: "blank"}
		}
		n := w
		if rapid.IntRange(0, 3).Draw(t, "short") == 0 {
			n = rapid.IntRange(1, w).Draw(t, "nCells")
		}
		r := C17Row{K: "row"}
		for i := 0; i < n; i++ {
			r.Cells = append(r.Cells, cell(i).Draw(t, "cell"))
		}
		return r
	})
	c.Rows = rapid.SliceOfN(row, 1, 7).Draw(t, "rows")
	return c
}

func TestC17(t *testing.T) {
	runProp(t, "C17", "table", drawC17, checkC17)
}

// ---------------------------------------------------------------- CLI level

type C17CLICase struct {
	Journal   string `json:"journal"`
	Digits    int    `json:"digits"` // -1: flag absent (default 0)
	Thousands bool   `json:"thousands,omitempty"`
	Alpha     bool   `json:"alpha,omitempty"`
	Diff      bool   `json:"diff,omitempty"`
	Interval  int    `json:"interval,omitempty"`
}

func c17CLIArgs(c C17CLICase, csvMode bool) []string {
	args := []string{"balance", "--color=false", "--to", "2100-12-31"}
	if csvMode {
		args = append(args, "--csv")
	}
	if c.Alpha {
		args = append(args, "-a")
	}
	if c.Diff {
		args = append(args, "--diff")
	}
	if c.Digits >= 0 {
		args = append(args, "--digits", strconv.Itoa(c.Digits))
	}
	if c.Thousands {
		args = append(args, "-k")
	}
	if c.Interval > 0 && c.Interval < len(ref.IntervalFlags) {
		args = append(args, ref.IntervalFlags[c.Interval])
	}
	return append(args, "j.knut")
}

func checkC17CLI(c C17CLICase) (o Outcome) {
	dir, cleanup := knutio.Materialise(map[string]string{"j.knut": c.Journal})
	defer cleanup()
	round := max(c.Digits, 0)
	labels := map[string]bool{
		"digits:" + strconv.Itoa(c.Digits):             true,
		"thousands:" + strconv.FormatBool(c.Thousands): true,
		"alpha:" + strconv.FormatBool(c.Alpha):         true,
		"diff:" + strconv.FormatBool(c.Diff):           true,
		"iv:" + ref.Interval(c.Interval).String():      true,
	}
	defer func() {
		if o.NonTrivial {
			labels["nontrivial"] = true
		}
		for _, l := range sortedKeys(labels) {
			o.Labels = append(o.Labels, "cli:"+l)
		}
	}()

	targs, cargs := c17CLIArgs(c, false), c17CLIArgs(c, true)
	rt := knutio.Run(knutio.Opts{Dir: dir}, targs...)
	rc := knutio.Run(knutio.Opts{Dir: dir}, cargs...)
	o.Evals = 2
	if !rt.OK() && !rc.OK() {
		// whether knut accepts the journal is not this property's business
		labels["knut-failed"] = true
		return o
	}
	if rt.OK() != rc.OK() {
		o.Violation = V("cli-one-rendering-failed", "text and CSV rendering of the same report: one failed\nknut %v: %s\nknut %v: %s", targs, rt.Brief(), cargs, rc.Brief())
		return o
	}
	lines, v := c17Grid(rt.Stdout)
	if v != nil {
		v.Msg = fmt.Sprintf("knut %v\n%s", targs, v.Msg)
		o.Violation = v
		return o
	}
	var rows [][]string
	for _, ln := range lines {
		if ln.sep {
			continue
		}
		blank := true
		for _, s := range ln.cells {
			if s != "" {
				blank = false
			}
		}
		if !blank {
			rows = append(rows, ln.cells)
		}
	}
	parseCSV := func(s string) ([][]string, *Violation) {
		rd := csv.NewReader(strings.NewReader(s))
		rd.FieldsPerRecord = -1
		recs, err := rd.ReadAll()
		if err != nil {
			return nil, V("csv-unreadable", "knut %v: CSV output is not readable: %v\n%s", cargs, err, clip(s, 3000))
		}
		return recs, nil
	}
	// labelsAgree compares the text columns (account, commodity) and the header.
	labelsAgree := func(recs [][]string) (int, int, bool) {
		for ri := range rows {
			for ci := range rows[ri] {
				if ci >= len(recs[ri]) {
					break
				}
				if (ri == 0 || ci < 2) && rows[ri][ci] != strings.TrimSpace(recs[ri][ci]) {
					return ri, ci, false
				}
			}
		}
		return 0, 0, true
	}
	var recs [][]string
	for attempt := 0; ; attempt++ {
		recs, v = parseCSV(rc.Stdout)
		if v != nil {
			o.Violation = v
			return o
		}
		if len(recs) != len(rows) {
			o.Violation = V("csv-row-count", "knut %v prints %d rows that are neither blank nor separators, knut %v prints %d records\n%s\n%s",
				targs, len(rows), cargs, len(recs), clip(rt.Stdout, 3000), clip(rc.Stdout, 3000))
			return o
		}
		for ri := range rows {
			if len(recs[ri]) != len(rows[ri]) {
				o.Violation = V("csv-column-count", "row %d: %d text cells, %d CSV fields\n%s\n%s", ri+1, len(rows[ri]), len(recs[ri]), clip(rt.Stdout, 3000), clip(rc.Stdout, 3000))
				return o
			}
		}
		ri, ci, ok := labelsAgree(recs)
		if ok {
			break
		}
		// Without -a, siblings of equal weight are ordered by map iteration, so
		// two runs may legitimately order the rows differently: run again.
		if c.Alpha || attempt >= 6 {
			if !c.Alpha {
				labels["row-order-unstable"] = true
				return o
			}
			o.Violation = V("csv-label", "row %d column %d: text shows %q, CSV shows %q\nknut %v\n%s\nknut %v\n%s",
				ri+1, ci+1, rows[ri][ci], recs[ri][ci], targs, clip(rt.Stdout, 3000), cargs, clip(rc.Stdout, 3000))
			return o
		}
		labels["csv-rerun"] = true
		rc = knutio.Run(knutio.Opts{Dir: dir}, cargs...)
		o.Evals++
		if !rc.OK() {
			o.Violation = V("cli-one-rendering-failed", "knut %v failed on a repeated run: %s", cargs, rc.Brief())
			return o
		}
	}
	if len(rows) == 0 {
		labels["empty-report"] = true
		return o
	}
	ncols := len(rows[0])
	natural := make([]int, ncols)
	numeric := make([]bool, ncols)
	interesting := false
	for ri := 1; ri < len(rows); ri++ {
		for ci := 2; ci < ncols; ci++ {
			f, cell := recs[ri][ci], rows[ri][ci]
			if f == "" {
				if cell != "" {
					o.Violation = V("csv-cell", "row %d column %d: CSV field is empty, text shows %q\n%s\n%s", ri+1, ci+1, cell, clip(rt.Stdout, 3000), clip(rc.Stdout, 3000))
					return o
				}
				continue
			}
			if !c17PlainDecimal(f) {
				o.Violation = V("csv-not-decimal", "knut %v: row %d column %d: CSV field %q is not a plain decimal\n%s", cargs, ri+1, ci+1, f, clip(rc.Stdout, 3000)).With("got", f)
				return o
			}
			amt, _ := ref.ParseDec(f)
			if v := c17NumCell(cell, amt, round, c.Thousands); v != nil {
				v.Msg = fmt.Sprintf("knut %v, row %d column %d (CSV field %q)\n%s\n%s\n%s", targs, ri+1, ci+1, f, v.Msg, clip(rt.Stdout, 3000), clip(rc.Stdout, 3000))
				o.Violation = v.With("row", strconv.Itoa(ri+1)).With("col", strconv.Itoa(ci+1))
				return o
			}
			if amt.Sign() == 0 {
				labels["amt:zero"] = true
				continue
			}
			numeric[ci] = true
			r, acc := c17Expected(amt, round, c.Thousands)
			natural[ci] = max(natural[ci], len(acc[0]))
			disp := amt
			if c.Thousands {
				disp = new(big.Rat).Quo(amt, c17Thousand)
			}
			if amt.Sign() < 0 {
				labels["amt:neg"] = true
			}
			if r.Sign() == 0 {
				labels["amt:rounds-to-zero"] = true
			}
			if c17IsTie(disp, round) {
				labels["amt:tie"] = true
				interesting = true
			}
			if strings.Contains(acc[0], ",") {
				labels["amt:grouped"] = true
				interesting = true
			}
			if r.Cmp(disp) != 0 {
				labels["amt:rounded"] = true
			}
		}
	}
	for _, row := range rows {
		for _, s := range row[:min(2, len(row))] {
			if utf8.RuneCountInString(s) != len(s) {
				labels["text:multibyte"] = true
			}
		}
	}
	nNum, diffWidth, first := 0, false, -1
	for ci := range numeric {
		if !numeric[ci] {
			continue
		}
		nNum++
		if first < 0 {
			first = natural[ci]
		} else if natural[ci] != first {
			diffWidth = true
		}
	}
	labels["numcols:"+strconv.Itoa(min(nNum, 3))] = true
	o.NonTrivial = nNum >= 2 && diffWidth && interesting
	return o
}

func drawC17CLI(t *rapid.T) C17CLICase {
	cfg := gen.HistCfg{
		MaxActions: rapid.SampledFrom([]int{6, 12, 12, 20, 30}).Draw(t, "maxActions"),
		Assertions: rapid.Bool().Draw(t, "assertions"),
		Closes:     rapid.IntRange(0, 3).Draw(t, "closes") == 0,
		MaxDec:     rapid.SampledFrom([]int{2, 8, 8}).Draw(t, "maxDec"),
		Unicode:    rapid.IntRange(0, 2).Draw(t, "unicode") > 0,
	}
	gen.MaybeLarge(t, &cfg, 4)
	j := gen.GenJournal(t, cfg)
	c := C17CLICase{
		Digits:    rapid.SampledFrom([]int{-1, 0, 1, 2, 2, 3, 4, 5, 6, 7, 8}).Draw(t, "digits"),
		Thousands: rapid.Bool().Draw(t, "thousands"),
		Alpha:     rapid.Bool().Draw(t, "alpha"),
		Diff:      rapid.IntRange(0, 2).Draw(t, "diff") == 0,
		Interval:  rapid.SampledFrom([]int{0, 1, 2, 3, 3, 4, 5}).Draw(t, "interval"),
	}
	// Extra bookings between two accounts of our own (opened on the first day of
	// the journal, so the journal stays accepted) with amounts on and next to the
	// rounding boundaries of the drawn --digits / -k, at most 8 decimals.
	d0, _, ok := j.Span()
	if !ok {
		d0 = ref.FromCivil(2020, 1, 1)
	}
	com := "CHF"
	if len(j.Commodities) > 0 {
		com = j.Commodities[0]
	}
	type extra struct {
		Off int
		Qty string
	}
	extras := rapid.SliceOfN(rapid.Custom(func(t *rapid.T) extra {
		q := drawC17Amount(t, max(c.Digits, 0), c.Thousands)
		q = ref.DecString(ref.TruncN(ref.R(q), 8))
		return extra{Off: rapid.SampledFrom([]int{0, 1, 7, 31, 32, 95, 370}).Draw(t, "extraOff"), Qty: q}
	}), 0, 4).Draw(t, "extras")
	if len(extras) > 0 {
		a1 := rapid.SampledFrom([]string{"Assets:C17", "Liabilities:Kasse:Ж17", "Assets:Bank:C17"}).Draw(t, "extraAcc1")
		a2 := rapid.SampledFrom([]string{"Income:C17", "Expenses:Épargne17", "Equity:C17"}).Draw(t, "extraAcc2")
		j.Directives = append(j.Directives, ref.Directive{Kind: ref.KOpen, Date: d0, Account: a1}, ref.Directive{Kind: ref.KOpen, Date: d0, Account: a2})
		for i, e := range extras {
			j.Directives = append(j.Directives, ref.Directive{Kind: ref.KTrx, Date: d0 + ref.Day(e.Off), Desc: fmt.Sprintf("c17 %d", i),
				Bookings: []ref.Booking{{Credit: a2, Debit: a1, Qty: e.Qty, Com: com}}})
		}
	}
	c.Journal = j.Text()
	if lo, hi, ok := j.Span(); ok && c.Interval == int(ref.Daily) && hi-lo > 60 {
		c.Interval = int(ref.Weekly)
	}
	return c
}

func TestC17CLI(t *testing.T) {
	runProp(t, "C17", "cli-text-vs-csv", drawC17CLI, checkC17CLI)
}
