//go:build !no_c08

package props

import (
	"bytes"
	"fmt"
	"os"
	"path/filepath"
	"regexp"
	"strings"
	"testing"
	"time"
	"unicode/utf8"

	"github.com/sboehler/knut/lib/syntax"
	"github.com/sboehler/knut/lib/syntax/directives"
	"github.com/sboehler/knut/lib/syntax/parser"
	"pgregory.net/rapid"

	"verifharness/gen"
	"verifharness/knutio"
	"verifharness/ref"
)

// C08 — `format` preserves meaning and comments and is idempotent.
//
// Library level: parser + syntax.FormatFile in-process. CLI level: `knut format
// FILE...` on files in a scratch directory, read back afterwards.
//
// Trusted base: knut's own parser reads both the original and the formatted
// text (C07 guards it). The field extraction, the gap extraction and the
// comparison are the harness's own. One parser-independent check is added: the
// comment lines of the original are a subsequence of the lines of the output.
//
// Deliberately not compared: alignment / padding inside a directive, trailing
// blanks and line-ending style inside a directive, the order of the two
// annotation lines, single- vs multi-line rendering of an assertion.

type C08File struct {
	Name   string `json:"name"`
	Text   []byte `json:"text"`   // base64 in JSON: arbitrary bytes
	Source string `json:"source"` // valid | mutated | fuzz
	Show   string `json:"show,omitempty"`
}

type C08Case struct {
	Files []C08File `json:"files"`          // library level: exactly one file
	CLI   bool      `json:"cli,omitempty"`  // run `knut format Args...` in a directory holding Files
	Args  []string  `json:"args,omitempty"` // names passed on the command line (a subset of Files, may repeat)
}

func init() { Register("C08", "format", checkC08) }

// c08Field is one compared element of a directive: what it is and its exact text.
type c08Field struct{ name, text string }

type c08Dir struct {
	kind   string
	fields []c08Field
}

// c08Walk is the harness's own walker: the directive sequence with the exact
// source text of every element the statement names.
func c08Walk(f directives.File) []c08Dir {
	var res []c08Dir
	for _, d := range f.Directives {
		var w c08Dir
		add := func(name, text string) { w.fields = append(w.fields, c08Field{name, text}) }
		switch x := d.Directive.(type) {
		case directives.Open:
			w.kind = "open"
			add("date", x.Date.Extract())
			add("account", x.Account.Extract())
		case directives.Close:
			w.kind = "close"
			add("date", x.Date.Extract())
			add("account", x.Account.Extract())
		case directives.Price:
			w.kind = "price"
			add("date", x.Date.Extract())
			add("commodity", x.Commodity.Extract())
			add("price", x.Price.Extract())
			add("target", x.Target.Extract())
		case directives.Include:
			w.kind = "include"
			add("path", x.IncludePath.Content.Extract())
		case directives.Assertion:
			w.kind = "balance"
			add("date", x.Date.Extract())
			add("balances", fmt.Sprint(len(x.Balances)))
			for i, b := range x.Balances {
				add(fmt.Sprintf("balance[%d].account", i), b.Account.Extract())
				add(fmt.Sprintf("balance[%d].quantity", i), b.Quantity.Extract())
				add(fmt.Sprintf("balance[%d].commodity", i), b.Commodity.Extract())
			}
		case directives.Transaction:
			w.kind = "transaction"
			add("date", x.Date.Extract())
			add("description", x.Description.Content.Extract())
			add("bookings", fmt.Sprint(len(x.Bookings)))
			for i, b := range x.Bookings {
				add(fmt.Sprintf("booking[%d].credit", i), b.Credit.Extract())
				add(fmt.Sprintf("booking[%d].debit", i), b.Debit.Extract())
				add(fmt.Sprintf("booking[%d].quantity", i), b.Quantity.Extract())
				add(fmt.Sprintf("booking[%d].commodity", i), b.Commodity.Extract())
			}
			if a := x.Addons.Accrual; !a.Empty() {
				add("accrual", "present")
				add("accrual.interval", a.Interval.Extract())
				add("accrual.start", a.Start.Extract())
				add("accrual.end", a.End.Extract())
				add("accrual.account", a.Account.Extract())
			} else {
				add("accrual", "absent")
			}
			if p := x.Addons.Performance; !p.Empty() {
				add("performance", "present")
				add("performance.targets", fmt.Sprint(len(p.Targets)))
				for i, c := range p.Targets {
					add(fmt.Sprintf("performance.target[%d]", i), c.Extract())
				}
			} else {
				add("performance", "absent")
			}
		default:
			w.kind = fmt.Sprintf("unknown:%T", d.Directive)
		}
		res = append(res, w)
	}
	return res
}

// c08Gaps returns the text outside directives as the parser delimits it:
// before the first directive, between consecutive ones, after the last.
func c08Gaps(text string, f directives.File) ([]string, *Violation) {
	var gaps []string
	pos := 0
	for i, d := range f.Directives {
		if d.Start < pos || d.End < d.Start || d.End > len(text) {
			return nil, V("tree-invalid", "directive %d has range [%d,%d) after position %d in a text of %d bytes (C07 territory)", i, d.Start, d.End, pos, len(text))
		}
		gaps = append(gaps, text[pos:d.Start])
		pos = d.End
	}
	return append(gaps, text[pos:]), nil
}

func c08IsComment(line string) bool {
	return strings.HasPrefix(line, "#") || strings.HasPrefix(line, "*") || strings.HasPrefix(line, "//")
}

// c08CommentLines lists the comment lines found in the gaps. The first
// segment of a gap that follows a directive is the rest of that directive's
// last line and therefore never a comment line of its own; it is kept out by
// the prefix test (a directive cannot be followed by `#` on the same line).
func c08CommentLines(gaps []string) []string {
	var res []string
	for _, g := range gaps {
		for _, l := range strings.Split(g, "\n") {
			if c08IsComment(l) {
				res = append(res, l)
			}
		}
	}
	return res
}

func c08Parse(text string) (directives.File, error) {
	p := parser.New(text, "j.knut")
	if err := p.Advance(); err != nil {
		return directives.File{}, err
	}
	return p.ParseFile()
}

type c08Lib struct {
	parseable  bool
	out        string // library FormatFile result (parseable only)
	nDirs      int
	labels     []string
	v          *Violation
	nontrivial bool
}

// c08Library evaluates the library-level oracle on one text.
func c08Library(c C08Case, text string) (res c08Lib) {
	var (
		stage            = "parse"
		orig, re         directives.File
		parseErr, reErr  error
		fmtErr, fmt2Err  error
		out1, out2       string
		formatted, again bool
	)
	pan := Guard("C08", "format", c, 30*time.Second, func() {
		orig, parseErr = c08Parse(text)
		if parseErr != nil {
			return
		}
		stage = "format"
		var buf bytes.Buffer
		if fmtErr = syntax.FormatFile(&buf, orig); fmtErr != nil {
			return
		}
		out1, formatted = buf.String(), true
		stage = "reparse"
		if re, reErr = c08Parse(out1); reErr != nil {
			return
		}
		stage = "reformat"
		var buf2 bytes.Buffer
		if fmt2Err = syntax.FormatFile(&buf2, re); fmt2Err != nil {
			return
		}
		out2, again = buf2.String(), true
	})
	if pan != nil && stage == "parse" {
		// a parser panic is C07's finding; for C08 the file simply does not parse
		res.labels = append(res.labels, "class:unparseable", "parse-panicked")
		return res
	}
	if pan == nil && parseErr != nil {
		res.labels = append(res.labels, "class:unparseable")
		return res
	}
	res.parseable = true
	res.nDirs = len(orig.Directives)
	res.labels = append(res.labels, "class:parseable")
	res.labels = append(res.labels, c08Features(text, orig)...)
	switch {
	case pan != nil:
		res.v = V("format-panic", "panic while %s: %v", stage, pan).With("stage", stage)
		return res
	case fmtErr != nil:
		res.v = V("format-error", "FormatFile failed on a journal that parses: %v", fmtErr)
		return res
	}
	res.out = out1
	_ = formatted
	changed := out1 != text
	if changed {
		res.labels = append(res.labels, "format:changed")
	} else {
		res.labels = append(res.labels, "format:unchanged")
	}
	res.nontrivial = res.nDirs >= 2 && changed
	show := func() string {
		return "--- input ---\n" + clip(text, 1200) + "\n--- formatted ---\n" + clip(out1, 1200)
	}
	// (1) the output parses
	if reErr != nil {
		res.v = V("output-unparseable", "formatted text does not parse: %v\n%s", reErr, show())
		return res
	}
	func() {
		defer func() {
			if p := recover(); p != nil {
				res.v = V("walker-panic", "walking the trees panicked: %v\n%s", p, show())
			}
		}()
		// (2) same directive sequence, identical field texts
		a, b := c08Walk(orig), c08Walk(re)
		if len(a) != len(b) {
			res.v = V("directive-count", "%d directives before, %d after formatting\n%s", len(a), len(b), show()).
				With("before", fmt.Sprint(len(a))).With("after", fmt.Sprint(len(b)))
			return
		}
		for i := range a {
			if a[i].kind != b[i].kind {
				res.v = V("directive-kind", "directive %d is a %s before and a %s after formatting\n%s", i, a[i].kind, b[i].kind, show()).
					With("directive", fmt.Sprint(i)).With("before", a[i].kind).With("after", b[i].kind)
				return
			}
			fa, fb := a[i].fields, b[i].fields
			for j := 0; j < len(fa) && j < len(fb); j++ {
				if fa[j] != fb[j] {
					res.v = V("field-changed", "directive %d (%s): %s %q became %s %q\n%s", i, a[i].kind, fa[j].name, fa[j].text, fb[j].name, fb[j].text, show()).
						With("directive", fmt.Sprint(i)).With("directive_kind", a[i].kind).With("field", fa[j].name).With("before", fa[j].text).With("after", fb[j].text)
					return
				}
			}
			if len(fa) != len(fb) {
				res.v = V("field-changed", "directive %d (%s): %d elements before, %d after\n%s", i, a[i].kind, len(fa), len(fb), show()).
					With("directive", fmt.Sprint(i)).With("directive_kind", a[i].kind).With("field", "count")
				return
			}
		}
		// (3) gaps byte-identical, as the parser delimits them on both sides
		ga, gv := c08Gaps(text, orig)
		if gv != nil {
			res.v = gv
			return
		}
		gb, gv := c08Gaps(out1, re)
		if gv != nil {
			res.v = gv.With("side", "formatted")
			return
		}
		for i := 0; i < len(ga) && i < len(gb); i++ {
			if ga[i] != gb[i] {
				res.v = V("gap-changed", "text outside directives changed: gap %d of %d was %q, is %q\n%s", i, len(ga), ga[i], gb[i], show()).
					With("gap", fmt.Sprint(i)).With("before", ga[i]).With("after", gb[i])
				return
			}
		}
		if len(ga) != len(gb) {
			res.v = V("gap-changed", "%d gaps before, %d after", len(ga), len(gb))
			return
		}
		// (3b) parser-independent on the output side: every comment line of
		// the original is still a line of the output, in the same order
		outLines := strings.Split(out1, "\n")
		k := 0
		for _, cl := range c08CommentLines(ga) {
			for k < len(outLines) && outLines[k] != cl {
				k++
			}
			if k == len(outLines) {
				res.v = V("comment-lost", "comment line %q of the original is missing (or out of order) in the formatted text\n%s", cl, show()).
					With("line", cl)
				return
			}
			k++
		}
	}()
	if res.v != nil {
		return res
	}
	// (4) idempotence
	if fmt2Err != nil {
		res.v = V("format-error", "FormatFile failed on its own output: %v\n%s", fmt2Err, show()).With("pass", "second")
		return res
	}
	if !again || out2 != out1 {
		res.v = V("not-idempotent", "formatting the formatted text changes it again\n%s\n--- formatted twice ---\n%s", show(), clip(out2, 1200))
		return res
	}
	return res
}

// c08Features labels the layout features of a parseable input.
func c08Features(text string, f directives.File) []string {
	set := map[string]bool{}
	if strings.Contains(text, "\r") {
		set["has-CR"] = true
	}
	if strings.Contains(text, "\t") {
		set["has-tab"] = true
	}
	if text != "" && !strings.HasSuffix(text, "\n") {
		set["no-final-newline"] = true
	}
	if !utf8.ValidString(text) {
		set["invalid-utf8"] = true
	}
	nonASCII := func(s string) bool {
		for i := 0; i < len(s); i++ {
			if s[i] >= 0x80 {
				return true
			}
		}
		return false
	}
	switch n := len(f.Directives); {
	case n == 0:
		set["dirs:0"] = true
	case n == 1:
		set["dirs:1"] = true
	default:
		set["dirs:2+"] = true
	}
	pos := 0
	for _, d := range f.Directives {
		if d.Start >= pos && d.Start <= len(text) {
			for _, l := range strings.Split(text[pos:d.Start], "\n") {
				if c08IsComment(l) {
					set["comment-lines"] = true
				}
			}
		}
		pos = d.End
		if strings.HasPrefix(d.Extract(), "@") {
			if _, ok := d.Directive.(directives.Transaction); !ok {
				set["annotation-before-non-transaction"] = true
			}
		}
		switch x := d.Directive.(type) {
		case directives.Open:
			set["kind:open"] = true
			if nonASCII(x.Account.Extract()) {
				set["unicode-account"] = true
			}
		case directives.Close:
			set["kind:close"] = true
		case directives.Price:
			set["kind:price"] = true
		case directives.Include:
			set["kind:include"] = true
		case directives.Assertion:
			set["kind:balance"] = true
			if len(x.Balances) > 1 {
				set["assertion:multi"] = true
			} else if strings.Contains(x.Extract(), "\n") {
				set["assertion:single-on-two-lines"] = true
			}
		case directives.Transaction:
			set["kind:transaction"] = true
			if strings.Contains(x.Description.Content.Extract(), "\n") {
				set["multi-line-description"] = true
			}
			for _, b := range x.Bookings {
				if nonASCII(b.Credit.Extract()) || nonASCII(b.Debit.Extract()) {
					set["unicode-account"] = true
				}
			}
			hasA, hasP := !x.Addons.Accrual.Empty(), !x.Addons.Performance.Empty()
			if hasA {
				set["accrual"] = true
			}
			if hasP {
				set["performance"] = true
			}
			if hasA && hasP {
				if x.Addons.Performance.Range.Start < x.Addons.Accrual.Range.Start {
					set["annotations:performance-first"] = true
				} else {
					set["annotations:accrual-first"] = true
				}
			}
		}
	}
	if pos <= len(text) {
		for _, l := range strings.Split(text[pos:], "\n") {
			if c08IsComment(l) {
				set["comment-lines"] = true
			}
		}
	}
	return sortedKeys(set)
}

func checkC08(c C08Case) (o Outcome) {
	level := "level:library"
	if c.CLI {
		level = "level:cli"
	}
	o.Labels = []string{level}
	var canon strings.Builder
	canon.WriteString(level)
	libs := map[string]c08Lib{}
	named := map[string]bool{}
	for _, a := range c.Args {
		named[a] = true
	}
	for _, f := range c.Files {
		fmt.Fprintf(&canon, "\x00%s\x00%s", f.Name, f.Text)
		lib := c08Library(c, string(f.Text))
		libs[f.Name] = lib
		if c.CLI && !named[f.Name] {
			continue // bystander file: only its bytes matter
		}
		o.Labels = append(o.Labels, "src:"+f.Source)
		o.Labels = append(o.Labels, lib.labels...)
		if strings.HasPrefix(f.Source, "valid") && !lib.parseable {
			o.Labels = append(o.Labels, "generator-bug:valid-rejected")
		}
		if lib.v != nil && o.Violation == nil {
			o.Violation = lib.v.With("file", f.Name)
		}
		if lib.nontrivial || (c.CLI && !lib.parseable) {
			// an unparseable file exercises the oracle only where a file can be left alone: at CLI level
			o.NonTrivial = true
		}
	}
	o.Canon = canon.String() + "\x00" + strings.Join(c.Args, "\x00")
	if o.Violation != nil || !c.CLI {
		return o
	}
	o.Evals = 1
	o.Violation = c08CLI(c, libs, named, &o)
	return o
}

// c08CLI runs `knut format Args...` and compares the files on disk.
func c08CLI(c C08Case, libs map[string]c08Lib, named map[string]bool, o *Outcome) *Violation {
	files := map[string]string{}
	for _, f := range c.Files {
		files[f.Name] = string(f.Text)
	}
	dir, cleanup := knutio.Materialise(files)
	defer cleanup()
	r := knutio.Run(knutio.Opts{Dir: dir}, append([]string{"format"}, c.Args...)...)
	if r.TimedOut || r.Signaled {
		return V("cli-abnormal", "knut format %q did not finish normally\n%s", c.Args, r.Brief())
	}
	if r.Panicked() {
		o.Labels = append(o.Labels, "cli:panicked") // C14's finding; C08 only looks at the files and the status
	}
	anyBad := false
	for n := range named {
		if !libs[n].parseable {
			anyBad = true
		}
	}
	o.Labels = append(o.Labels, fmt.Sprintf("cli:files=%d", len(c.Args)))
	if len(c.Files) > len(named) {
		o.Labels = append(o.Labels, "cli:bystander-file")
	}
	if anyBad {
		o.Labels = append(o.Labels, "cli:expect-failure")
		if r.Exit == 0 {
			return V("cli-exit", "knut format %q exits 0 although a named file does not parse\n%s", c.Args, r.Brief()).With("expected", "nonzero")
		}
		if strings.TrimSpace(r.Stderr) == "" {
			return V("cli-stderr-empty", "knut format %q fails with exit %d but says nothing on stderr", c.Args, r.Exit)
		}
	} else {
		o.Labels = append(o.Labels, "cli:expect-success")
		if r.Exit != 0 {
			return V("cli-exit", "knut format %q exits %d although every named file parses\n%s", c.Args, r.Exit, r.Brief()).With("expected", "0")
		}
	}
	for _, f := range c.Files {
		got, err := os.ReadFile(filepath.Join(dir, f.Name))
		if err != nil {
			return V("cli-file-gone", "%s cannot be read back after knut format %q: %v", f.Name, c.Args, err).With("file", f.Name)
		}
		lib := libs[f.Name]
		diff := func() string {
			return fmt.Sprintf("--- before ---\n%s\n--- on disk after ---\n%s\n--- library result ---\n%s", clip(string(f.Text), 1000), clip(string(got), 1000), clip(lib.out, 1000))
		}
		switch {
		case !named[f.Name]:
			if !bytes.Equal(got, f.Text) {
				return V("cli-bystander-modified", "%s was not named on the command line %q but its bytes changed\n%s", f.Name, c.Args, diff()).With("file", f.Name)
			}
		case !lib.parseable:
			if !bytes.Equal(got, f.Text) {
				return V("cli-unparseable-modified", "%s does not parse but knut format %q changed its bytes\n%s", f.Name, c.Args, diff()).With("file", f.Name)
			}
		case !anyBad:
			if string(got) != lib.out {
				return V("cli-content", "%s after knut format %q differs from the library FormatFile result\n%s", f.Name, c.Args, diff()).With("file", f.Name)
			}
		default:
			// the invocation failed because of another file: the statement allows this
			// file to be formatted or to be left alone, nothing else
			switch {
			case string(got) == lib.out:
				o.Labels = append(o.Labels, "cli:parseable-sibling-formatted")
			case bytes.Equal(got, f.Text):
				o.Labels = append(o.Labels, "cli:parseable-sibling-untouched")
			default:
				return V("cli-content", "%s after the failed knut format %q is neither the original nor the formatted text\n%s", f.Name, c.Args, diff()).With("file", f.Name)
			}
		}
	}
	return nil
}

func c08Show(text string) string {
	if utf8.ValidString(text) {
		return clip(text, 400)
	}
	return ""
}

// drawC08Text draws one journal text: a parseable journal in a noisy layout, or
// byte-level edits of one (mostly unparseable; those that still parse are odd
// layouts the renderer would not produce).
func drawC08Text(t *rapid.T, maxN int, mutatedShare int, extra *ref.Directive, largeOneIn int) (string, string) {
	src := "valid"
	if rapid.IntRange(0, 9).Draw(t, "mutated") < mutatedShare {
		src = "mutated"
	}
	ds := gen.GenSyntaxJournal(t, maxN, true)
	if gen.Rare(t, "largeFile", largeOneIn) {
		// a file of realistic size (beyond a thousand directives, up to several hundred KiB)
		ds = gen.GenSyntaxJournalN(t, 1025, 4500, true)
		src += "+large"
	}
	if extra != nil {
		at := rapid.IntRange(0, len(ds)).Draw(t, "includeAt")
		ds = append(ds[:at:at], append([]ref.Directive{*extra}, ds[at:]...)...)
	}
	text := gen.RenderNoisy(t, ds)
	if strings.HasPrefix(src, "mutated") {
		text = gen.Mutate(t, text)
	} else if rapid.IntRange(0, 14).Draw(t, "strayAnnotation") == 0 {
		if s, ok := c08StrayAnnotation(t, text); ok {
			text, src = s, "valid+stray-annotation"
		}
	}
	return text, src
}

var c08NonTrxStart = regexp.MustCompile(`^(\d{4}-\d{2}-\d{2}[ \t]+(open|close|price|balance)|include)[ \t\r\n]`)

// c08StrayAnnotation puts an annotation line in front of a directive that is
// not a transaction. The parser accepts that (and attaches the annotation to
// nothing), so it is one more layout "that parses" in the sense of the
// statement; the renderer never produces it.
func c08StrayAnnotation(t *rapid.T, text string) (string, bool) {
	lines := strings.SplitAfter(text, "\n")
	var cand []int
	for i, l := range lines {
		if c08NonTrxStart.MatchString(l) {
			cand = append(cand, i)
		}
	}
	if len(cand) == 0 {
		return text, false
	}
	at := cand[rapid.IntRange(0, len(cand)-1).Draw(t, "strayAt")]
	ann := rapid.SampledFrom([]string{
		"@performance(USD)\n", "@performance()\n", "@accrue monthly 2020-01-01 2020-12-31 Assets:Accrual\n",
		"@accrue daily 2020-01-01 2020-01-05 Assets:Accrual \t\r\n@performance( A , B )\n",
	}).Draw(t, "strayText")
	return strings.Join(lines[:at], "") + ann + strings.Join(lines[at:], ""), true
}

func drawC08(t *rapid.T, cli bool) C08Case {
	if !cli {
		text, src := drawC08Text(t, 10, 3, nil, 8)
		return C08Case{Files: []C08File{{Name: "j.knut", Text: []byte(text), Source: src, Show: c08Show(text)}}}
	}
	c := C08Case{CLI: true}
	names := []string{"j.knut", "k.knut", "sub/l.knut", "with space.knut", "ü.knut"}
	n := rapid.SampledFrom([]int{1, 1, 1, 1, 2, 2, 3}).Draw(t, "nFiles")
	// sometimes the first file includes a badly laid out (or broken) file that is not named on the command line
	var inc *ref.Directive
	if rapid.IntRange(0, 3).Draw(t, "withIncluded") == 0 {
		inc = &ref.Directive{Kind: ref.KInclude, Path: "inc/other.knut"}
	}
	for i := 0; i < n; i++ {
		var extra *ref.Directive
		if i == 0 {
			extra = inc
		}
		share := 4
		if n > 1 {
			share = 2 // keep all-parse invocations frequent with several files
		}
		text, src := drawC08Text(t, 6, share, extra, 5)
		c.Files = append(c.Files, C08File{Name: names[i], Text: []byte(text), Source: src, Show: c08Show(text)})
		c.Args = append(c.Args, names[i])
	}
	if n > 1 && rapid.Bool().Draw(t, "reverseArgs") {
		for i, j := 0, len(c.Args)-1; i < j; i, j = i+1, j-1 {
			c.Args[i], c.Args[j] = c.Args[j], c.Args[i]
		}
	}
	if rapid.IntRange(0, 19).Draw(t, "dupArg") == 0 {
		c.Args = append(c.Args, c.Args[0])
	}
	if inc != nil {
		text, src := drawC08Text(t, 4, 5, nil, 9)
		c.Files = append(c.Files, C08File{Name: inc.Path, Text: []byte(text), Source: src, Show: c08Show(text)})
	}
	return c
}

func TestC08(t *testing.T) {
	runProp(t, "C08", "format", func(t *rapid.T) C08Case { return drawC08(t, false) }, checkC08)
}

func TestC08CLI(t *testing.T) {
	runProp(t, "C08", "format", func(t *rapid.T) C08Case { return drawC08(t, true) }, checkC08)
}
