//go:build !no_c20

package props

import (
	"encoding/csv"
	"fmt"
	"math"
	"math/big"
	"os"
	"regexp"
	"sort"
	"strconv"
	"strings"
	"testing"

	"pgregory.net/rapid"

	"verifharness/gen"
	"verifharness/knutio"
	"verifharness/ref"
)

// C20 — portfolio analytics agree with the valued balance.

type C20Case struct {
	Directives []ref.Directive     `json:"directives"`
	Text       string              `json:"text"`
	V          string              `json:"v"`
	From       *ref.Day            `json:"from,omitempty"`
	To         *ref.Day            `json:"to,omitempty"`
	Interval   int                 `json:"interval"`
	Last       int                 `json:"last,omitempty"`
	Universe   map[string][]string `json:"universe,omitempty"` // class path "A:B" → commodities
	Mapping    string              `json:"mapping,omitempty"`  // -m value for weights ("" none)
	ComFilter  string              `json:"com_filter,omitempty"`
	AccFilter  string              `json:"acc_filter,omitempty"`
}

func init() {
	Register("C20", "weights", checkC20Weights)
	Register("C20", "returns", checkC20Returns)
	sh := func(c C20Case) []C20Case {
		var out []C20Case
		for _, ds := range shrinkDirectives(c.Directives) {
			n := c
			n.Directives, n.Text = ds, ref.RenderAll(ds)
			out = append(out, n)
		}
		if c.Universe != nil {
			n := c
			n.Universe = nil
			out = append(out, n)
		}
		if c.Mapping != "" {
			n := c
			n.Mapping = ""
			out = append(out, n)
		}
		if c.Last != 0 {
			n := c
			n.Last = 0
			out = append(out, n)
		}
		return out
	}
	RegisterShrinker("C20", "weights", sh)
	RegisterShrinker("C20", "returns", sh)
}

func (c C20Case) windowArgs() []string {
	var a []string
	if c.From != nil {
		a = append(a, "--from", c.From.String())
	}
	if c.To != nil {
		a = append(a, "--to", c.To.String())
	}
	if f := ref.IntervalFlags[c.Interval]; f != "" {
		a = append(a, f)
	}
	if c.Last != 0 {
		a = append(a, "--last", strconv.Itoa(c.Last))
	}
	return a
}

func (c C20Case) filterArgs() []string {
	var a []string
	if c.ComFilter != "" {
		a = append(a, "--commodity", c.ComFilter)
	}
	if c.AccFilter != "" {
		a = append(a, "--account", c.AccFilter)
	}
	return a
}

func (c C20Case) files() map[string]string {
	files := map[string]string{"j.knut": c.Text}
	if c.Universe != nil {
		var sb strings.Builder
		for _, class := range sortedKeys(c.Universe) {
			fmt.Fprintf(&sb, "%q: [%s]\n", class, strings.Join(c.Universe[class], ", "))
		}
		files["universe.yaml"] = sb.String()
	}
	return files
}

// locate mirrors the documented universe semantics: class path + commodity, "Other" when unclassified.
func (c C20Case) locate(com string) []string {
	for class, coms := range c.Universe {
		for _, x := range coms {
			if x == com {
				return append(strings.Split(class, ":"), com)
			}
		}
	}
	return []string{"Other", com}
}

// mapped applies the -m rule of the case to a located path (first matching rule; a single rule here).
func (c C20Case) mapped(path []string) []string {
	if c.Mapping == "" {
		return path
	}
	parts := strings.SplitN(c.Mapping, ",", 2)
	lv := strings.Split(parts[0], ":")
	level, _ := strconv.Atoi(lv[0])
	suffix := 0
	if len(lv) == 2 {
		suffix, _ = strconv.Atoi(lv[1])
	}
	if len(parts) == 2 {
		if !regexp.MustCompile(parts[1]).MatchString(strings.Join(path, ":")) {
			return path
		}
	}
	if level < len(path)-suffix {
		return append(append([]string{}, path[:level]...), path[len(path)-suffix:]...)
	}
	return path
}

func checkC20Weights(c C20Case) (o Outcome) {
	dir, cleanup := knutio.Materialise(c.files())
	defer cleanup()
	wargs := append([]string{"portfolio", "weights", "-v", c.V, "--csv"}, c.windowArgs()...)
	wargs = append(wargs, c.filterArgs()...)
	if c.Universe != nil {
		wargs = append(wargs, "--universe", "universe.yaml")
	}
	if c.Mapping != "" {
		wargs = append(wargs, "-m", c.Mapping)
	}
	wargs = append(wargs, "j.knut")
	// the holdings on a date are cumulative: the balance is asked without --from (with it, it reports only what
	// was booked inside the window), its columns are a superset of the weights columns
	cb := c
	cb.From = nil
	bargs := append([]string{"balance", "-v", c.V, "--csv", "-s", "."}, cb.windowArgs()...)
	bargs = append(bargs, c.filterArgs()...)
	bargs = append(bargs, "j.knut")
	rw := knutio.Run(knutio.Opts{Dir: dir}, wargs...)
	rb := knutio.Run(knutio.Opts{Dir: dir}, bargs...)
	o.Evals = 2
	o.Labels = []string{"oracle:weights", "iv:" + ref.Interval(c.Interval).String(), fmt.Sprintf("universe:%v", c.Universe != nil), fmt.Sprintf("mapping:%v", c.Mapping != ""),
		fmt.Sprintf("filter:%v", c.ComFilter != "" || c.AccFilter != "")}
	if c.Universe != nil {
		depth, shared := 0, false
		for class, coms := range c.Universe {
			if n := strings.Count(class, ":") + 1; n > depth {
				depth = n
			}
			shared = shared || (len(coms) > 1 && strings.Count(class, ":") >= 2)
		}
		o.Labels = append(o.Labels, fmt.Sprintf("universe-depth:%d", depth), fmt.Sprintf("deep-class-shared:%v", shared))
	}
	for _, r := range []knutio.Result{rw, rb} {
		if r.TimedOut || r.Signaled || r.Panicked() {
			o.Violation = V("crash", "knut %v: %s", wargs, r.Brief())
			return o
		}
	}
	if rw.Exit != 0 || rb.Exit != 0 {
		if (rw.Exit == 0) != (rb.Exit == 0) {
			o.Labels = append(o.Labels, "one-side-rejected")
			if os.Getenv("VERIF_DEBUG") != "" {
				fmt.Printf("ONE-SIDE: %v exit %d: %s | %v exit %d: %s\n", wargs, rw.Exit, clip(rw.Stderr, 300), bargs, rb.Exit, clip(rb.Stderr, 300))
			}
		}
		o.Labels = append(o.Labels, "knut-rejected")
		return o
	}
	// holdings per (date, commodity) from the balance report's A/L section
	bt, err := knutio.ParseBalanceCSV(rb.Stdout)
	if err != nil {
		o.Violation = V("unreadable", "balance csv: %v", err)
		return o
	}
	hold := map[string]map[string]*big.Rat{} // date → commodity → value
	for _, row := range bt.Rows {
		if row.Section != "AL" || row.Comm == "" {
			continue
		}
		for i, d := range bt.Dates {
			v, err := row.Value(i)
			if err != nil {
				o.Violation = V("unreadable", "%v", err)
				return o
			}
			if hold[d] == nil {
				hold[d] = map[string]*big.Rat{}
			}
			if hold[d][row.Comm] == nil {
				hold[d][row.Comm] = new(big.Rat)
			}
			hold[d][row.Comm].Add(hold[d][row.Comm], v)
		}
	}
	// weights csv
	recs, err := csv.NewReader(strings.NewReader(rw.Stdout)).ReadAll()
	if err != nil || len(recs) == 0 {
		if strings.TrimSpace(rw.Stdout) == "" || len(recs) == 0 {
			o.Labels = append(o.Labels, "empty-weights")
			return o
		}
		o.Violation = V("unreadable", "weights csv: %v\n%s", err, clip(rw.Stdout, 800))
		return o
	}
	dates := recs[0][1:]
	got := map[string]map[string]float64{} // row name → date → weight
	var rowOrder []string
	for _, rec := range recs[1:] {
		name := strings.TrimSpace(rec[0]) // an indented label is the same label
		if got[name] != nil {
			o.Violation = V("duplicate-row", "weights row %q appears twice\n%s", name, clip(rw.Stdout, 1500))
			return o
		}
		got[name] = map[string]float64{}
		rowOrder = append(rowOrder, name)
		for i, cell := range rec[1:] {
			if cell == "" || i >= len(dates) {
				continue
			}
			f, err := strconv.ParseFloat(cell, 64)
			if err != nil {
				o.Violation = V("weight-not-a-number", "weights cell %q for %s on %s\n%s", cell, name, dates[i], clip(rw.Stdout, 1500))
				return o
			}
			got[name][dates[i]] = f // NaN/Inf are judged per date below: shares of a zero total are undefined
		}
	}
	nDatesChecked, held2 := 0, false
	for _, d := range dates {
		if _, ok := hold[d]; !ok && c.From != nil && len(bt.Rows) > 0 {
			// a weights column the balance without --from does not have (a window starting after the last booking)
			o.Labels = append(o.Labels, "weights-date-not-in-balance")
			continue
		}
		total := new(big.Rat)
		nz := 0
		for _, v := range hold[d] {
			total.Add(total, v)
			if v.Sign() != 0 {
				nz++
			}
		}
		// a (nearly) zero total makes shares meaningless; the statement does not cover it
		if ref.Abs(total).Cmp(big.NewRat(1, 100)) < 0 {
			o.Labels = append(o.Labels, "zero-total-date")
			continue
		}
		nDatesChecked++
		if nz >= 2 {
			held2 = true
		}
		for name := range got {
			if w, ok := got[name][d]; ok && (math.IsNaN(w) || math.IsInf(w, 0)) {
				o.Violation = V("weight-not-a-number", "weights cell %v for %s on %s although the holdings total %s\n%s", w, name, d, total.FloatString(4), clip(rw.Stdout, 1500))
				return o
			}
		}
		// expected weight per output row = sum over the commodities mapped onto it (leaf or group)
		exp := map[string]float64{}
		// knut computes shares in float64: a total that is the small difference of large holdings (a position
		// financed by a loan) is known only up to the conditioning of that sum, and so is every share of it.
		// Allowed on top of the printed precision: 64 ulp x (sum |holdings| / |total|) x sum |member shares|.
		sumAbs := new(big.Rat)
		for _, v := range hold[d] {
			sumAbs.Add(sumAbs, ref.Abs(v))
		}
		kappa, _ := new(big.Rat).Quo(sumAbs, ref.Abs(total)).Float64()
		absW := map[string]float64{}
		wtol := func(a float64) float64 { return 64 * 2.3e-16 * kappa * a }
		for com, v := range hold[d] {
			if v.Sign() == 0 {
				continue
			}
			w, _ := new(big.Rat).Quo(v, total).Float64()
			path := c.mapped(c.locate(com))
			for i := range path {
				// every prefix is a row: groups carry the sum of their members
				exp[strings.Join(path[:i+1], "\x00")] += w
				absW[path[i]] += math.Abs(w)
			}
		}
		// compare by row name: names are unique by construction of the generator (classes never equal commodities)
		byName := map[string]float64{}
		for k, w := range exp {
			segs := strings.Split(k, "\x00")
			byName[segs[len(segs)-1]+"\x00"+strconv.Itoa(len(segs))] += w
		}
		// rows of the output do not tell their depth; match on the name only (sum over depths)
		expName := map[string]float64{}
		for k, w := range byName {
			expName[strings.Split(k, "\x00")[0]] += w
		}
		for name, w := range expName {
			g, ok := got[name][d]
			if !ok {
				g = 0
			}
			if math.Abs(g-w) > 2e-6+wtol(absW[name]) {
				o.Violation = V("weight-mismatch", "knut %v\nrow %q on %s: weight %.6f, expected %.6f from the valued balance (total %s)\n--weights--\n%s\n--balance--\n%s\n--journal--\n%s",
					wargs, name, d, g, w, total.FloatString(4), clip(rw.Stdout, 1500), clip(rb.Stdout, 2500), clip(c.Text, 2500))
				return o
			}
		}
		for name := range got {
			if _, ok := expName[name]; !ok && math.Abs(got[name][d]) > 2e-6 {
				o.Violation = V("weight-unexpected", "knut %v\nrow %q on %s has weight %.6f but no holdings map onto it\n--weights--\n%s\n--balance--\n%s", wargs, name, d, got[name][d], clip(rw.Stdout, 1500), clip(rb.Stdout, 2500))
				return o
			}
		}
		// the top level sums to 100 %
		var top float64
		tops := map[string]bool{}
		for k, w := range exp {
			if !strings.Contains(k, "\x00") {
				tops[k] = true
				_ = w
			}
		}
		for name := range tops {
			top += got[name][d]
		}
		if math.Abs(top-1) > 1e-5 {
			o.Violation = V("top-level-not-100", "knut %v\ntop-level rows %v sum to %.6f on %s\n%s", wargs, sortedKeys(tops), top, d, clip(rw.Stdout, 1500))
			return o
		}
	}
	// every balance date with holdings must be a weights column
	wd := map[string]bool{}
	for _, d := range dates {
		wd[d] = true
	}
	for _, d := range bt.Dates {
		any := false
		for _, v := range hold[d] {
			if v.Sign() != 0 {
				any = true
			}
		}
		if any && !wd[d] && c.From != nil && len(dates) > 0 && d < dates[0] {
			continue // a column before the window of the weights report
		}
		if any && !wd[d] && c.From != nil && len(dates) == 0 {
			continue // the window starts after the last booking: no weights columns at all
		}
		if any && !wd[d] {
			o.Violation = V("date-missing", "knut %v\nthe balance reports holdings on %s but portfolio weights has no column for it (columns %v)\n%s", wargs, d, dates, clip(rb.Stdout, 1500))
			return o
		}
	}
	o.NonTrivial = nDatesChecked >= 2 && held2
	_ = rowOrder
	return o
}

// one line per period: the period's end date first, the return in percent last (what stands between them - a
// time of day, a separator - is not part of the statement)
var reReturnLine = regexp.MustCompile(`^(\d{4}-\d{2}-\d{2})\b.*?[ :\t](-?[0-9.]+|NaN|[+-]?Inf) ?%$`)

func checkC20Returns(c C20Case) (o Outcome) {
	dir, cleanup := knutio.Materialise(c.files())
	defer cleanup()
	args := append([]string{"portfolio", "returns", "-v", c.V}, c.windowArgs()...)
	args = append(args, c.filterArgs()...)
	args = append(args, "j.knut")
	accRe, comRe := regexp.MustCompile(c.AccFilter), regexp.MustCompile(c.ComFilter)
	// the portfolio: asset/liability accounts passing --account, positions in commodities passing --commodity
	inPortfolio := func(a string) bool { return ref.IsAL(a) && accRe.MatchString(a) }
	comOK := func(com string) bool { return comRe.MatchString(com) }
	r := knutio.Run(knutio.Opts{Dir: dir}, args...)
	o.Evals = 1
	o.Labels = []string{"oracle:returns", "iv:" + ref.Interval(c.Interval).String(), fmt.Sprintf("filter:%v", c.ComFilter != "" || c.AccFilter != "")}
	if r.TimedOut || r.Signaled || r.Panicked() {
		o.Violation = V("crash", "knut %v: %s", args, r.Brief())
		return o
	}
	ideal, miss := ref.ValueJournalIdeal(c.Directives, c.V)
	if miss != nil || r.Exit != 0 {
		o.Labels = append(o.Labels, "knut-rejected-or-missing-price")
		return o
	}
	ts, _ := ref.ExpandAll(c.Directives)
	min, max, hasTrx := ref.JournalPeriod(c.Directives, ts)
	if !hasTrx {
		return o
	}
	start, end := min, max
	if c.From != nil && *c.From > start {
		start = *c.From
	}
	if c.To != nil && *c.To < end {
		end = *c.To
	}
	periods := ref.Partition(start, end, ref.Interval(c.Interval), c.Last)
	if start > end {
		periods = nil // an empty window has no periods
		o.Labels = append(o.Labels, "empty-window")
	}
	type line struct {
		date string
		pct  float64
		raw  string
	}
	var lines []line
	for _, l := range strings.Split(strings.TrimRight(r.Stdout, "\n"), "\n") {
		if l == "" {
			continue
		}
		m := reReturnLine.FindStringSubmatch(l)
		if m == nil {
			o.Violation = V("unreadable", "returns line %q", l)
			return o
		}
		f, _ := strconv.ParseFloat(m[2], 64)
		lines = append(lines, line{m[1], f, m[2]})
	}
	var want []string
	for _, p := range periods {
		want = append(want, p.End.String())
	}
	var gotDates []string
	for _, l := range lines {
		gotDates = append(gotDates, l.date)
	}
	if strings.Join(gotDates, ",") != strings.Join(want, ",") {
		o.Violation = V("periods-missing", "knut %v\nreturns are reported for %v, the partition has periods ending %v\n--journal--\n%s", args, gotDates, want, clip(c.Text, 2500)).
			With("lines", strconv.Itoa(len(gotDates))).With("periods", strconv.Itoa(len(want)))
		return o
	}
	// value of the portfolio (all A/L accounts) at the end of a day, from the ideal entries
	value := func(d ref.Day) *big.Rat {
		v := new(big.Rat)
		for _, e := range ideal {
			if e.Date <= d && inPortfolio(e.Account) && comOK(e.Com) {
				v.Add(v, e.Value)
			}
		}
		return v
	}
	pb := ref.NewPriceBook(c.Directives)
	nFlowFree, nDeposit, freeDayEnd := 0, 0, false
	directiveDays := map[ref.Day]bool{}
	for _, d := range c.Directives {
		directiveDays[d.Date] = true
	}
	for _, t := range ts {
		directiveDays[t.Date] = true
	}
	for i, p := range periods {
		if !directiveDays[p.End] {
			freeDayEnd = true
		}
		flows, depositsOnlyInV := false, true
		for _, t := range ts {
			if t.Date < p.Start || t.Date > p.End {
				continue
			}
			for _, po := range t.Postings {
				if inPortfolio(po.Credit) != inPortfolio(po.Debit) && comOK(po.Com) && po.Qty.Sign() != 0 {
					flows = true
					if po.Com != c.V || t.HasPerf {
						depositsOnlyInV = false
					}
				}
			}
		}
		if i == 0 && p.Start > start {
			// with --last the first shown period also absorbs what happened earlier inside the window (as the
			// balance does, C11); whether its return covers only the period is not fixed by the statement
			continue
		}
		v0, v1 := value(p.Start-1), value(p.End)
		unchanged := true
		{
			before := pb.Normalized(c.V, p.Start-1)
			for _, d := range pb.PriceDays() {
				if d >= p.Start && d <= p.End {
					for com, x := range pb.Normalized(c.V, d) {
						if y, ok := before[com]; !ok || y.Cmp(x) != 0 {
							unchanged = false
						}
					}
				}
			}
		}
		if !flows && unchanged {
			// nothing happened to the portfolio in this period: 0 %, whatever it is worth (also zero or negative)
			nFlowFree++
			if lines[i].pct != 0 /* also NaN */ {
				o.Violation = V("idle-period-return", "knut %v\nperiod ending %s has no flows and unchanged prices (value %s), return %s%%, expected 0.0%%\n%s\n--journal--\n%s", args, p.End, v1.FloatString(4), lines[i].raw, clip(r.Stdout, 800), clip(c.Text, 2500))
				return o
			}
		}
		if !flows && v0.Sign() > 0 && v1.Sign() > 0 {
			nFlowFree++
			e, _ := new(big.Rat).Quo(v1, v0).Float64()
			exp := 100 * (e - 1)
			// one printed decimal, plus what the 8-decimal truncation of every value entry can do to tiny portfolios
			f0, _ := v0.Float64()
			f1, _ := v1.Float64()
			tol := 0.051 + 100*e*float64(len(ideal)+1)*1e-8*(1/f0+1/f1)
			if float64(len(ideal)+1)*1e-8/f0 > 0.01 {
				// a start value of the size of knut's 8-decimal truncation (it may be exactly zero for knut):
				// the quotient is not determined to any useful precision, the statement has nothing to compare
				o.Labels = append(o.Labels, "start-value-below-truncation")
				continue
			}
			if math.Abs(lines[i].pct-exp) > tol {
				o.Violation = V("flow-free-return", "knut %v\nperiod ending %s has no flows: value %s -> %s, return %s%%, expected %.3f%%\n%s\n--journal--\n%s", args, p.End, v0.FloatString(4), v1.FloatString(4), lines[i].raw, exp, clip(r.Stdout, 800), clip(c.Text, 2500))
				return o
			}
		}
		if flows && depositsOnlyInV && v0.Sign() > 0 {
			// prices of all commodities unchanged across the period?
			same := true
			before, after := pb.Normalized(c.V, p.Start-1), pb.Normalized(c.V, p.End)
			for _, d := range pb.PriceDays() {
				if d >= p.Start && d <= p.End {
					for com, x := range pb.Normalized(c.V, d) {
						if y, ok := before[com]; !ok || y.Cmp(x) != 0 {
							same = false
						}
					}
				}
			}
			for com, x := range after {
				if y, ok := before[com]; !ok || y.Cmp(x) != 0 {
					same = false
				}
			}
			// and the portfolio never turns non-positive inside the period (returns of an empty portfolio are undefined)
			positive := true
			for d := p.Start; d <= p.End; d++ {
				if directiveDays[d] && value(d).Sign() <= 0 {
					positive = false
				}
			}
			if same && positive {
				nDeposit++
				if math.Abs(lines[i].pct) > 0.051 {
					o.Violation = V("deposit-only-return", "knut %v\nperiod ending %s has unchanged prices and only deposits/withdrawals in %s, return %s%%, expected 0.0%%\n%s\n--journal--\n%s", args, p.End, c.V, lines[i].raw, clip(r.Stdout, 800), clip(c.Text, 2500))
					return o
				}
			}
		}
	}
	o.NonTrivial = len(periods) >= 2 && (nFlowFree+nDeposit) >= 1 && freeDayEnd
	if nFlowFree > 0 {
		o.Labels = append(o.Labels, "flow-free-period")
	}
	if nDeposit > 0 {
		o.Labels = append(o.Labels, "deposit-only-period")
	}
	if freeDayEnd {
		o.Labels = append(o.Labels, "period-end-on-directive-free-day")
	}
	return o
}

// drawC20 builds a small investment journal: cash and broker accounts, a few priced commodities, and a
// timeline of months each of which holds price changes only, deposits only, purchases, transfers or a mix.
// drawC20Many: a portfolio of realistic breadth - 33 to 60 securities bought in one or a few transactions (more
// than eight commodities flowing in one transaction), then deposits and withdrawals in V at constant prices and
// a price move later.
func drawC20Many(t *rapid.T) C20Case {
	v := rapid.SampledFrom([]string{"CHF", "USD"}).Draw(t, "v")
	n := rapid.IntRange(33, 60).Draw(t, "nSecurities")
	day := ref.FromCivil(rapid.IntRange(2015, 2022).Draw(t, "year"), rapid.IntRange(1, 12).Draw(t, "month"), rapid.SampledFrom([]int{1, 2, 15, 28}).Draw(t, "dom"))
	day0 := day
	var ds []ref.Directive
	for _, a := range []string{"Assets:Bank", "Assets:Broker", "Equity:Equity", "Expenses:Fees"} {
		ds = append(ds, ref.Directive{Kind: ref.KOpen, Date: day, Account: a})
	}
	coms := make([]string, n)
	for i := range coms {
		coms[i] = fmt.Sprintf("H%02d", i)
		ds = append(ds, ref.Directive{Kind: ref.KPrice, Date: day, Com: coms[i], Target: v, Price: fmt.Sprint(rapid.IntRange(1, 300).Draw(t, "price"))})
	}
	perTrx := rapid.SampledFrom([]int{n, n, 9, 12, 40}).Draw(t, "perTrx")
	for i := 0; i < n; i += perTrx {
		var bs []ref.Booking
		for j := i; j < n && j < i+perTrx; j++ {
			bs = append(bs, ref.Booking{Credit: "Equity:Equity", Debit: "Assets:Broker", Qty: fmt.Sprint(rapid.IntRange(1, 50).Draw(t, "units")), Com: coms[j]})
		}
		ds = append(ds, ref.Directive{Kind: ref.KTrx, Date: day, Desc: fmt.Sprintf("funding %d", i), Bookings: bs})
	}
	steps := rapid.IntRange(2, 6).Draw(t, "steps")
	for i := 0; i < steps; i++ {
		day += ref.Day(rapid.SampledFrom([]int{1, 7, 30, 31, 45}).Draw(t, "gap"))
		switch rapid.SampledFrom([]string{"deposit", "deposit", "withdraw", "fee", "price"}).Draw(t, "kind") {
		case "deposit":
			ds = append(ds, ref.Directive{Kind: ref.KTrx, Date: day, Desc: "deposit", Bookings: []ref.Booking{{Credit: "Equity:Equity", Debit: "Assets:Bank", Qty: fmt.Sprint(rapid.IntRange(1, 5000).Draw(t, "amt")), Com: v}}})
		case "withdraw":
			ds = append(ds, ref.Directive{Kind: ref.KTrx, Date: day, Desc: "withdrawal", Bookings: []ref.Booking{{Credit: "Assets:Bank", Debit: "Equity:Equity", Qty: fmt.Sprint(rapid.IntRange(1, 500).Draw(t, "amt")), Com: v}}})
		case "fee":
			ds = append(ds, ref.Directive{Kind: ref.KTrx, Date: day, Desc: "fee", Bookings: []ref.Booking{{Credit: "Assets:Bank", Debit: "Expenses:Fees", Qty: fmt.Sprint(rapid.IntRange(1, 50).Draw(t, "amt")), Com: v}}})
		case "price":
			k := rapid.IntRange(0, n-1).Draw(t, "which")
			ds = append(ds, ref.Directive{Kind: ref.KPrice, Date: day, Com: coms[k], Target: v, Price: fmt.Sprint(rapid.IntRange(1, 300).Draw(t, "price2"))})
		}
	}
	c := C20Case{Directives: ds, Text: ref.RenderAll(ds), V: v}
	c.Interval = rapid.SampledFrom([]int{0, 3, 3, 4}).Draw(t, "interval")
	to := day + ref.Day(rapid.IntRange(0, 40).Draw(t, "toOff"))
	c.To = &to
	if rapid.IntRange(0, 3).Draw(t, "from") == 0 {
		d := day0 + ref.Day(rapid.IntRange(0, int(day-day0)).Draw(t, "fromOff"))
		c.From = &d
	}
	return c
}

func drawC20(t *rapid.T) C20Case {
	if gen.Rare(t, "manyHoldings", 4) {
		return drawC20Many(t)
	}
	v := rapid.SampledFrom([]string{"CHF", "USD"}).Draw(t, "v")
	others := rapid.SliceOfNDistinct(rapid.SampledFrom([]string{"AAPL", "BTC", "EUR", "Gold", "X1"}), 1, 3, func(s string) string { return s }).Draw(t, "coms")
	sort.Strings(others)
	accs := []string{"Assets:Bank", "Assets:Broker", "Assets:Broker:Sub", "Liabilities:Loan", "Equity:Equity", "Income:Salary", "Expenses:Fees"}
	y := rapid.IntRange(2015, 2022).Draw(t, "year")
	day := ref.FromCivil(y, rapid.IntRange(1, 12).Draw(t, "month"), rapid.SampledFrom([]int{1, 2, 15, 28}).Draw(t, "dom"))
	day0 := day
	var ds []ref.Directive
	for _, a := range accs {
		ds = append(ds, ref.Directive{Kind: ref.KOpen, Date: day, Account: a})
	}
	// price graph: star or chain towards v
	parent := map[string]string{}
	for i, c := range others {
		parent[c] = v
		if i > 0 && rapid.IntRange(0, 2).Draw(t, "chain") == 0 {
			parent[c] = others[i-1]
		}
	}
	price := func(c string) ref.Directive {
		d := ref.Directive{Kind: ref.KPrice, Date: day, Com: c, Target: parent[c], Price: gen.DrawPrice(t)}
		if rapid.IntRange(0, 4).Draw(t, "inverse") == 0 {
			d.Com, d.Target = d.Target, d.Com
		}
		return d
	}
	for _, c := range others {
		ds = append(ds, price(c))
	}
	n := 0
	pos := map[[2]string]*big.Rat{} // (account, commodity) → quantity held, for full divestments
	addPos := func(acc, com string, x *big.Rat) {
		k := [2]string{acc, com}
		if pos[k] == nil {
			pos[k] = new(big.Rat)
		}
		pos[k].Add(pos[k], x)
	}
	trx := func(cr, dr, q, com string, perf bool) {
		n++
		addPos(cr, com, ref.Neg(ref.R(q)))
		addPos(dr, com, ref.R(q))
		d := ref.Directive{Kind: ref.KTrx, Date: day, Desc: fmt.Sprintf("t%d", n), Bookings: []ref.Booking{{Credit: cr, Debit: dr, Qty: q, Com: com}}}
		if perf {
			d.HasPerf = true
			d.Perf = []string{com}
		}
		ds = append(ds, d)
	}
	// several bookings in one transaction (a trade, a deposit in two currencies)
	trx2 := func(bs ...ref.Booking) {
		n++
		for _, b := range bs {
			addPos(b.Credit, b.Com, ref.Neg(ref.R(b.Qty)))
			addPos(b.Debit, b.Com, ref.R(b.Qty))
		}
		ds = append(ds, ref.Directive{Kind: ref.KTrx, Date: day, Desc: fmt.Sprintf("t%d", n), Bookings: bs})
	}
	// initial funding - or a fully leveraged start: a position bought entirely on margin, net value exactly zero
	if rapid.IntRange(0, 5).Draw(t, "leveraged") == 0 {
		units := rapid.IntRange(1, 50).Draw(t, "units")
		var direct *ref.Directive
		for i := range ds {
			if ds[i].Kind == ref.KPrice && ds[i].Com == others[0] && ds[i].Target == v {
				direct = &ds[i]
			}
		}
		if direct != nil {
			loan := ref.DecString(ref.Trunc8(ref.Mul(ref.R(direct.Price), ref.R(fmt.Sprint(units)))))
			trx2(ref.Booking{Credit: "Equity:Equity", Debit: "Assets:Broker", Qty: fmt.Sprint(units), Com: others[0]},
				ref.Booking{Credit: "Liabilities:Loan", Debit: "Equity:Equity", Qty: loan, Com: v})
		} else {
			trx("Equity:Equity", "Assets:Bank", fmt.Sprint(rapid.IntRange(1000, 100000).Draw(t, "fund")), v, false)
		}
	} else {
		trx("Equity:Equity", "Assets:Bank", fmt.Sprint(rapid.IntRange(1000, 100000).Draw(t, "fund")), v, false)
		trx("Equity:Equity", "Assets:Broker", fmt.Sprint(rapid.IntRange(1, 500).Draw(t, "units")), others[0], false)
	}
	steps := rapid.IntRange(2, 10).Draw(t, "steps")
	for s := 0; s < steps; s++ {
		day += ref.Day(rapid.SampledFrom([]int{1, 3, 9, 17, 26, 31, 45, 70}).Draw(t, "gap"))
		switch rapid.SampledFrom([]string{"price", "price", "price", "deposit", "deposit", "withdraw", "buy", "transfer", "loan", "expense", "divest", "divest"}).Draw(t, "event") {
		case "divest":
			// give away / sell a whole position: its value goes to exactly zero on that day
			var held [][2]string
			for k, q := range pos {
				if ref.IsAL(k[0]) && q.Sign() > 0 && k[1] != v {
					held = append(held, k)
				}
			}
			sort.Slice(held, func(i, j int) bool { return held[i][0]+held[i][1] < held[j][0]+held[j][1] })
			if len(held) == 0 {
				ds = append(ds, price(rapid.SampledFrom(others).Draw(t, "pc")))
				break
			}
			k := held[rapid.IntRange(0, len(held)-1).Draw(t, "divestWhich")]
			trx(k[0], rapid.SampledFrom([]string{"Equity:Equity", "Expenses:Fees"}).Draw(t, "divestTo"), ref.DecString(pos[k]), k[1], false)
		case "price":
			ds = append(ds, price(rapid.SampledFrom(others).Draw(t, "pc")))
		case "deposit":
			if rapid.IntRange(0, 3).Draw(t, "twoCurrencies") == 0 {
				// one transaction, two commodities
				trx2(ref.Booking{Credit: "Income:Salary", Debit: "Assets:Bank", Qty: fmt.Sprint(rapid.IntRange(1, 5000).Draw(t, "amt")), Com: v},
					ref.Booking{Credit: "Income:Salary", Debit: "Assets:Broker", Qty: fmt.Sprint(rapid.IntRange(1, 50).Draw(t, "amt2")), Com: rapid.SampledFrom(others).Draw(t, "dc")})
			} else {
				trx("Income:Salary", "Assets:Bank", fmt.Sprint(rapid.IntRange(1, 5000).Draw(t, "amt")), v, false)
			}
		case "withdraw":
			trx("Assets:Bank", "Expenses:Fees", fmt.Sprint(rapid.IntRange(1, 500).Draw(t, "amt")), v, false)
		case "buy":
			c := rapid.SampledFrom(others).Draw(t, "bc")
			trx("Equity:Equity", rapid.SampledFrom([]string{"Assets:Broker", "Assets:Broker:Sub"}).Draw(t, "bacc"), gen.DrawQty(t, 2, false), c, rapid.IntRange(0, 3).Draw(t, "perf") == 0)
		case "transfer":
			trx("Assets:Bank", "Assets:Broker", fmt.Sprint(rapid.IntRange(1, 300).Draw(t, "amt")), v, false)
		case "loan":
			trx("Liabilities:Loan", "Assets:Bank", fmt.Sprint(rapid.IntRange(1, 3000).Draw(t, "amt")), rapid.SampledFrom(append([]string{v}, others...)).Draw(t, "lc"), false)
		case "expense":
			trx("Assets:Bank", "Expenses:Fees", gen.DrawQty(t, 2, false), v, false)
		}
	}
	if rapid.IntRange(0, 3).Draw(t, "shuffle") == 0 {
		ds = gen.Shuffle(t, ds)
	}
	c := C20Case{Directives: ds, Text: ref.RenderAll(ds), V: v}
	c.Interval = rapid.SampledFrom([]int{0, 2, 3, 3, 3, 4, 5}).Draw(t, "interval")
	c.Last = rapid.SampledFrom([]int{0, 0, 0, 2, 5}).Draw(t, "last")
	if rapid.IntRange(0, 2).Draw(t, "to") == 0 || day > ref.FromCivil(2024, 6, 30) {
		d := day + ref.Day(rapid.IntRange(-60, 40).Draw(t, "toOff"))
		c.To = &d
	}
	if rapid.IntRange(0, 3).Draw(t, "from") == 0 {
		// a window that starts inside the journal (or before it): positions held before it still count
		hi := int(day - day0)
		if hi < 1 {
			hi = 1
		}
		d := day0 + ref.Day(rapid.IntRange(-5, hi).Draw(t, "fromOff"))
		c.From = &d
	}
	return c
}

func drawC20ReturnsCase(t *rapid.T) C20Case {
	c := drawC20(t)
	coms := map[string]bool{c.V: true}
	for _, d := range c.Directives {
		for _, b := range d.Bookings {
			coms[b.Com] = true
		}
	}
	all := sortedKeys(coms)
	if rapid.IntRange(0, 3).Draw(t, "comFilter") == 0 {
		c.ComFilter = rapid.SampledFrom([]string{"^" + all[0] + "$", "^" + all[len(all)-1] + "$", "A|B|C", "."}).Draw(t, "comFilterV")
	}
	if rapid.IntRange(0, 3).Draw(t, "accFilter") == 0 {
		c.AccFilter = rapid.SampledFrom([]string{"^Assets", "Broker", "Bank|Loan"}).Draw(t, "accFilterV")
	}
	return c
}

func drawC20Weights(t *rapid.T) C20Case {
	c := drawC20(t)
	coms := map[string]bool{c.V: true}
	for _, d := range c.Directives {
		for _, b := range d.Bookings {
			coms[b.Com] = true
		}
	}
	all := sortedKeys(coms)
	if rapid.IntRange(0, 1).Draw(t, "universe") == 0 {
		classes := []string{"Equities", "Equities:US", "Cash", "Alternatives:Crypto", "Alternatives"}
		if rapid.Bool().Draw(t, "deepClasses") {
			// class paths of every depth from 1 to 8 (the universe file imposes no limit), several commodities per class
			classes = []string{"Equities", "Equities:US", "Equities:US:Tech", "Equities:EU:Large:Value", "Alternatives:Crypto:L1:PoS:Major",
				"Real:Estate:CH:ZH:City:Core", "Funds:Active:Global:Multi:Asset:Balanced:Growth", "Cash:Bank:Swiss:Retail:Sight:Salary:Main:Sub"}
			classes = classes[rapid.IntRange(0, 5).Draw(t, "classFrom"):]
		}
		c.Universe = map[string][]string{}
		for _, com := range all {
			if rapid.IntRange(0, 4).Draw(t, "unclassified") == 0 {
				continue
			}
			cl := rapid.SampledFrom(classes).Draw(t, "class")
			c.Universe[cl] = append(c.Universe[cl], com)
		}
		if len(all) >= 2 && rapid.IntRange(0, 2).Draw(t, "leafIsGroup") == 0 {
			// a class path that coincides with another entry's class + commodity: the node P:X is a leaf (commodity X)
			// and a group (class P:X holding Y) at the same time
			x, y := all[0], all[len(all)-1]
			for cl, coms := range c.Universe {
				var keep []string
				for _, cm := range coms {
					if cm != x && cm != y {
						keep = append(keep, cm)
					}
				}
				if len(keep) == 0 {
					delete(c.Universe, cl)
				} else {
					c.Universe[cl] = keep
				}
			}
			c.Universe["Cash"] = append(c.Universe["Cash"], x)
			c.Universe["Cash:"+x] = []string{y}
		}
		if len(c.Universe) == 0 {
			c.Universe = nil // an empty universe file is rejected (EOF); not this property's business
		}
	}
	if rapid.IntRange(0, 2).Draw(t, "mapping") == 0 {
		c.Mapping = rapid.SampledFrom([]string{"1", "1,.", "2,Equities", "1,Other", "1:1,.", "1,nomatch", "1," + all[0] + "$", "1," + all[len(all)-1] + "$", "2," + all[0], "1:1,US", "1:1,Crypto", "1:1,Equities", "1:1,Cash"}).Draw(t, "mappingV")
	}
	if rapid.IntRange(0, 3).Draw(t, "comFilter") == 0 {
		c.ComFilter = rapid.SampledFrom([]string{"^" + all[0] + "$", "A|B|C", "."}).Draw(t, "comFilterV")
	}
	if rapid.IntRange(0, 3).Draw(t, "accFilter") == 0 {
		c.AccFilter = rapid.SampledFrom([]string{"^Assets", "Broker", "Bank|Loan"}).Draw(t, "accFilterV")
	}
	return c
}

func TestC20Weights(t *testing.T) {
	runProp(t, "C20", "weights", drawC20Weights, checkC20Weights)
}

func TestC20Returns(t *testing.T) {
	runProp(t, "C20", "returns", drawC20ReturnsCase, checkC20Returns)
}
