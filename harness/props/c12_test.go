//go:build !no_c12

package props

import (
	"fmt"
	"math/big"
	"os"
	"sort"
	"strings"
	"testing"
	"time"

	"github.com/sboehler/knut/lib/model/commodity"
	"github.com/sboehler/knut/lib/model/price"
	"github.com/sboehler/knut/lib/model/registry"
	"github.com/shopspring/decimal"
	"pgregory.net/rapid"

	"verifharness/gen"
	"verifharness/knutio"
	"verifharness/ref"
	"verifharness/stats"
)

// C12 — derived prices are consistent with declared prices.
//
// Library level: price.Prices.Insert / Normalize, NormalizedPrices.Price / Valuate, observed after every insert
// (each prefix of the declaration sequence is "a given day"). CLI level: a journal holding one unit of each
// commodity in its own account, valued on the last day with `knut balance -v V --color=false --digits 8`.
// The oracle is ref.C12Graph (exact rationals, all simple chains enumerated).

// Former defect (same root cause for both kinds): Prices.normalize is a depth-first walk in map-iteration order.
//
// c12ExcludeDirectOverridden: a pair declared directly against V is overridden by a chain whenever the walk reaches
// the commodity through another neighbour first (violation kind "direct-pair-overridden"). While the defect is open
// the generator drops every declaration that would put V on a cycle of the pair graph (counted as excluded
// "direct-pair-overridden"), so that the search continues behind it.
//
// c12ExcludeAltPathNondeterminism: with alternative chains elsewhere in V's component the chain that wins differs
// from call to call (kind "normalize-nondeterministic"). The statement of C12 allows any chain, so those graphs stay
// in the search; only the comparison of the 8 repeated Normalize results is skipped for them (counted as excluded
// "nondeterministic-alt-paths").
//
// The defect is repaired in /repo (fix: normalize prices breadth-first in a fixed order), so both exclusions are OFF
// by default and the class is generated again; VERIF_C12_EXCLUDE=1 (or =direct / =nondet) switches them back on, which
// is only useful to search behind the defect on a tree that still has it.
var (
	c12ExcludeDirectOverridden      = c12EnvOn("direct")
	c12ExcludeAltPathNondeterminism = c12EnvOn("nondet")
)

func c12EnvOn(which string) bool {
	e := os.Getenv("VERIF_C12_EXCLUDE")
	return e == "1" || e == "all" || e == which
}

type c12Decl struct {
	C   int    `json:"c"`   // commodity (index into Coms)
	P   string `json:"p"`   // price, decimal string with at most 8 decimals
	T   int    `json:"t"`   // target commodity
	Day int    `json:"day"` // declarations take effect in stable order of Day; Decls order is the file order
}

type C12Case struct {
	Coms    []string  `json:"coms"`
	Decls   []c12Decl `json:"decls"`
	V       int       `json:"v"`
	Amt     string    `json:"amt"` // amount passed to Valuate (library level)
	CLI     bool      `json:"cli,omitempty"`
	Hold    []int     `json:"hold,omitempty"`     // CLI: commodities of which one unit is held
	SameDay bool      `json:"same_day,omitempty"` // CLI: the holding is booked on the day of the last price instead of the day after
}

func init() { Register("C12", "prices", checkC12) }

const c12Repeats = 8

// c12Order returns the indices of the declarations in the order in which they take effect.
func c12Order(ds []c12Decl) []int {
	idx := make([]int, len(ds))
	for i := range idx {
		idx[i] = i
	}
	sort.SliceStable(idx, func(a, b int) bool { return ds[idx[a]].Day < ds[idx[b]].Day })
	return idx
}

func c12IsZero(p string) bool { return ref.R(p).Sign() == 0 }

func c12Render(c C12Case) string {
	var sb strings.Builder
	for _, i := range c12Order(c.Decls) {
		d := c.Decls[i]
		fmt.Fprintf(&sb, "price %s %s %s\n", c.Coms[d.C], d.P, c.Coms[d.T])
	}
	fmt.Fprintf(&sb, "valuation %s", c.Coms[c.V])
	return sb.String()
}

func c12Rat(d decimal.Decimal) *big.Rat { return ref.R(d.String()) }

func c12Vals(vs []*big.Rat) string {
	var ss []string
	for _, v := range vs {
		ss = append(ss, ref.DecString(v))
	}
	return "{" + strings.Join(ss, ", ") + "}"
}

func c12PathString(c C12Case, p ref.C12Path) string {
	var ss []string
	for _, n := range p.Nodes {
		ss = append(ss, c.Coms[n])
	}
	return strings.Join(ss, "→") + " = " + c12Vals(p.Vals)
}

// c12Judge compares one observed price (or its absence) with what the statement allows.
func c12Judge(c C12Case, a *ref.C12Answer, got *big.Rat, have bool, level string) *Violation {
	name, vname := c.Coms[a.C], c.Coms[c.V]
	switch {
	case !a.Connected && have:
		return V("unconnected-has-price", "%s is not connected to %s by any declaration but has price %s\n%s", name, vname, ref.DecString(got), c12Render(c)).With("level", level)
	case !a.Connected:
		return nil
	case !have:
		return V("connected-no-price", "%s is connected to %s but has no price (allowed: %s)\n%s", name, vname, c12Vals(a.Allowed()), c12Render(c)).With("level", level)
	case a.C == c.V:
		if got.Cmp(big.NewRat(1, 1)) != 0 {
			return V("self-price-not-one", "price of %s in itself is %s\n%s", vname, ref.DecString(got), c12Render(c)).With("level", level)
		}
		return nil
	case a.Direct:
		if ref.C12Contains(a.Strict, got) {
			return nil
		}
		if p := a.OnSomeChain(got); p != nil {
			return V("direct-pair-overridden", "%s is declared directly against %s: latest declaration gives %s, knut reports %s, which is the chain %s\n%s",
				name, vname, c12Vals(a.Strict), ref.DecString(got), c12PathString(c, *p), c12Render(c)).With("level", level).With("alt_chain", "true")
		}
		return V("direct-pair-wrong", "%s is declared directly against %s: latest declaration gives %s, knut reports %s (on no chain)\n%s",
			name, vname, c12Vals(a.Strict), ref.DecString(got), c12Render(c)).With("level", level)
	default:
		if a.OnSomeChain(got) != nil {
			return nil
		}
		var ps []string
		for _, p := range a.Paths {
			ps = append(ps, c12PathString(c, p))
		}
		return V("chain-mismatch", "price of %s in %s is %s; no simple chain of latest declarations gives that:\n  %s\n%s",
			name, vname, ref.DecString(got), strings.Join(ps, "\n  "), c12Render(c)).With("level", level)
	}
}

func c12Snapshot(ps price.Prices) string {
	var rows []string
	for t, m := range ps {
		for k, v := range m {
			rows = append(rows, t.Name()+"/"+k.Name()+"="+v.String())
		}
		if len(m) == 0 {
			rows = append(rows, t.Name()+"/")
		}
	}
	sort.Strings(rows)
	return strings.Join(rows, ";")
}

func c12Canon(np price.NormalizedPrices) string {
	var rows []string
	for k, v := range np {
		rows = append(rows, k.Name()+"="+v.String())
	}
	sort.Strings(rows)
	return strings.Join(rows, ";")
}

// c12Features describes the final graph for the non-trivial rule and the label histogram.
type c12Features struct {
	chain2, inverse, redeclared, flipped, alt, directAlt, unconnected, boundary bool
	maxLen                                                                      int
}

func c12Describe(g *ref.C12Graph, ans []ref.C12Answer, v int, only map[int]bool) (f c12Features) {
	inComp := map[int]bool{}
	for _, a := range ans {
		if only != nil && !only[a.C] {
			continue
		}
		if !a.Connected {
			f.unconnected = true
			continue
		}
		inComp[a.C] = true
		if a.C == v {
			continue
		}
		if !a.Direct {
			f.chain2 = true
		}
		if len(a.Paths) >= 2 {
			f.alt = true
			if a.Direct {
				f.directAlt = true
			}
		}
		if l := a.MinLen(); l > f.maxLen {
			f.maxLen = l
		}
		for _, p := range a.Paths {
			if a.Direct && len(p.Nodes) > 2 {
				continue // a chain that the statement does not let win
			}
			f.inverse = f.inverse || p.Inverse
			f.boundary = f.boundary || p.Boundary
		}
	}
	for k, d := range g.Latest {
		if d.Count >= 2 && (inComp[k[0]] || inComp[k[1]]) {
			f.redeclared = true
			f.flipped = f.flipped || d.Flipped
		}
	}
	return f
}

func (f c12Features) labels() (ls []string) {
	add := func(b bool, l string) {
		if b {
			ls = append(ls, l)
		}
	}
	add(f.chain2, "chain>=2")
	add(f.maxLen >= 3, "chain>=3")
	add(f.inverse, "inverse")
	add(f.redeclared, "redeclared")
	add(f.flipped, "redeclared-flipped")
	add(f.alt, "alt-paths")
	add(f.directAlt, "direct+alt")
	add(f.unconnected, "unconnected")
	add(f.boundary, "recip-boundary")
	return ls
}

func (f c12Features) nonTrivial() bool { return f.chain2 || f.inverse || f.redeclared || f.alt }

func checkC12(c C12Case) (o Outcome) {
	if c.V < 0 || c.V >= len(c.Coms) {
		panic("harness: C12 case without valuation commodity")
	}
	o.Labels = []string{fmt.Sprintf("cli:%v", c.CLI), fmt.Sprintf("n:%d", len(c.Coms)), fmt.Sprintf("decls:%d", min(len(c.Decls), 10))}
	if c.CLI {
		return checkC12CLI(c, o)
	}
	var v *Violation
	var feat c12Features
	hasZero, selfDecl := false, false
	p := Guard("C12", "prices", c, 60*time.Second, func() {
		reg := registry.New()
		coms := make([]*commodity.Commodity, len(c.Coms))
		for i, n := range c.Coms {
			coms[i] = reg.Commodities().MustGet(n)
		}
		amt, err := decimal.NewFromString(c.Amt)
		if err != nil {
			panic("harness: bad amount " + c.Amt)
		}
		ps := make(price.Prices)
		g := ref.NewC12Graph(len(c.Coms))
		if v = c12CheckState(c, ps, g, coms, amt, &feat); v != nil {
			return
		}
		order := c12Order(c.Decls)
		for k, i := range order {
			d := c.Decls[i]
			pr, err := decimal.NewFromString(d.P)
			if err != nil {
				panic("harness: bad price " + d.P)
			}
			line := fmt.Sprintf("price %s %s %s", c.Coms[d.C], d.P, c.Coms[d.T])
			selfDecl = selfDecl || d.C == d.T
			if c12IsZero(d.P) {
				hasZero = true
				before := c12Snapshot(ps)
				if err := ps.Insert(coms[d.C], pr, coms[d.T]); err == nil {
					v = V("zero-price-accepted", "Insert accepted `%s`\n%s", line, c12Render(c)).With("level", "lib")
					return
				}
				if after := c12Snapshot(ps); after != before {
					v = V("zero-price-changed-state", "rejected `%s` changed the prices from\n  %s\nto\n  %s\n%s", line, before, after, c12Render(c)).With("level", "lib")
					return
				}
			} else {
				if err := ps.Insert(coms[d.C], pr, coms[d.T]); err != nil {
					v = V("insert-error", "Insert rejected `%s`: %v\n%s", line, err, c12Render(c)).With("level", "lib")
					return
				}
				g.Declare(d.C, ref.R(d.P), d.T)
			}
			// price lists of realistic size are judged after every 16th declaration and at the end (every state of
			// a 160-commodity list costs a second)
			if len(c.Coms) > 16 && k%16 != 15 && k != len(order)-1 {
				continue
			}
			if v = c12CheckState(c, ps, g, coms, amt, &feat); v != nil {
				v.With("after", line)
				return
			}
		}
	})
	if p != nil {
		if s, ok := p.(string); ok && strings.HasPrefix(s, "harness:") {
			panic(s)
		}
		o.Violation = V("panic", "price library panicked: %v\n%s", p, c12Render(c)).With("level", "lib")
		return o
	}
	o.Violation = v
	o.NonTrivial = feat.nonTrivial()
	o.Labels = append(o.Labels, feat.labels()...)
	if hasZero {
		o.Labels = append(o.Labels, "zero-price")
	}
	if selfDecl {
		o.Labels = append(o.Labels, "self-decl")
	}
	return o
}

// c12CheckState normalises the current prices c12Repeats times and judges every commodity in every result.
func c12CheckState(c C12Case, ps price.Prices, g *ref.C12Graph, coms []*commodity.Commodity, amt decimal.Decimal, feat *c12Features) *Violation {
	ans := g.Answers(c.V)
	*feat = c12Describe(g, ans, c.V, nil)
	amtR := c12Rat(amt)
	first := ""
	for rep := 0; rep < c12Repeats; rep++ {
		np := ps.Normalize(coms[c.V])
		canon := c12Canon(np)
		if rep > 0 && canon == first {
			continue // identical to a result that has been judged already
		}
		for i := range ans {
			a := &ans[i]
			got, err := np.Price(coms[a.C])
			val, verr := np.Valuate(coms[a.C], amt)
			if (err == nil) != (verr == nil) {
				return V("price-valuate-disagree", "Price(%s) error: %v, Valuate error: %v\n%s", c.Coms[a.C], err, verr, c12Render(c)).With("level", "lib")
			}
			if _, inMap := np[coms[a.C]]; inMap != (err == nil) {
				return V("price-map-disagree", "Price(%s) error: %v but map entry present: %v\n%s", c.Coms[a.C], err, inMap, c12Render(c)).With("level", "lib")
			}
			var gotR *big.Rat
			if err == nil {
				gotR = c12Rat(got)
			}
			if v := c12Judge(c, a, gotR, err == nil, "lib"); v != nil {
				return v
			}
			if err == nil {
				if want := ref.Trunc8(ref.Mul(amtR, gotR)); c12Rat(val).Cmp(want) != 0 {
					return V("valuate-mismatch", "Valuate(%s, %s) = %s with price %s, want %s\n%s", c.Coms[a.C], c.Amt, val.String(), got.String(), ref.DecString(want), c12Render(c)).With("level", "lib")
				}
			}
		}
		if len(np) > len(c.Coms) {
			return V("extra-commodities", "normalised prices hold %d entries for %d commodities: %s", len(np), len(c.Coms), canon).With("level", "lib")
		}
		if rep == 0 {
			first = canon
			continue
		}
		// a second, different result that is also allowed by the statement
		if feat.alt && c12ExcludeAltPathNondeterminism {
			stats.Get("C12").Excluded("nondeterministic-alt-paths")
			continue
		}
		return V("normalize-nondeterministic", "Normalize(%s) on the same prices gave\n  %s\nand then\n  %s\n%s", c.Coms[c.V], first, canon, c12Render(c)).
			With("level", "lib").With("alt_paths", fmt.Sprint(feat.alt))
	}
	return nil
}

// ---------------------------------------------------------------------------------------------------------------
// CLI level

var c12Base = ref.FromCivil(2020, 1, 1)

func c12Journal(c C12Case) string {
	order := c12Order(c.Decls)
	rank := make([]int, len(c.Decls))
	for r, i := range order {
		rank[i] = r
	}
	// strictly increasing dates in the order of effect; the file keeps the order of Decls
	date := func(i int) ref.Day { return c12Base + ref.Day(1+c.Decls[i].Day+rank[i]) }
	last := c12Base + 1
	for i := range c.Decls {
		if d := date(i); d > last {
			last = d
		}
	}
	if !c.SameDay {
		last++
	}
	var sb strings.Builder
	fmt.Fprintf(&sb, "%s open Equity:Src\n", c12Base)
	for _, h := range c.Hold {
		fmt.Fprintf(&sb, "%s open Assets:Hold:%s\n", c12Base, c.Coms[h])
	}
	for i, d := range c.Decls {
		fmt.Fprintf(&sb, "%s price %s %s %s\n", date(i), c.Coms[d.C], d.P, c.Coms[d.T])
	}
	fmt.Fprintf(&sb, "\n%s \"hold\"\n", last)
	for _, h := range c.Hold {
		fmt.Fprintf(&sb, "Equity:Src Assets:Hold:%s 1 %s\n", c.Coms[h], c.Coms[h])
	}
	return sb.String()
}

// c12ReadTable extracts the cells of the rows Assets > Hold > <name> from the text report.
func c12ReadTable(out string) (map[string]*big.Rat, error) {
	res := map[string]*big.Rat{}
	section, sub := "", ""
	for _, line := range strings.Split(out, "\n") {
		if !strings.HasPrefix(line, "|") {
			continue
		}
		cells := strings.Split(strings.Trim(line, "|"), "|")
		if len(cells) != 2 {
			return nil, fmt.Errorf("row with %d cells: %q", len(cells), line)
		}
		name := strings.TrimSpace(cells[0])
		ind := len(cells[0]) - len(strings.TrimLeft(cells[0], " "))
		switch {
		case name == "":
		case ind == 1:
			section, sub = name, ""
		case ind == 3:
			sub = name
		case ind == 5 && section == "Assets" && sub == "Hold":
			cell := strings.ReplaceAll(strings.TrimSpace(cells[1]), ",", "")
			if cell == "" {
				res[name] = new(big.Rat)
				continue
			}
			x, ok := ref.ParseDec(cell)
			if !ok {
				return nil, fmt.Errorf("cell %q of row %s is not a number", cells[1], name)
			}
			if _, dup := res[name]; dup {
				return nil, fmt.Errorf("row %s twice", name)
			}
			res[name] = x
		}
	}
	return res, nil
}

func checkC12CLI(c C12Case, o Outcome) Outcome {
	g := ref.NewC12Graph(len(c.Coms))
	hasZero := false
	for _, i := range c12Order(c.Decls) {
		d := c.Decls[i]
		if c12IsZero(d.P) {
			hasZero = true
			continue
		}
		g.Declare(d.C, ref.R(d.P), d.T)
	}
	held := map[int]bool{}
	for _, h := range c.Hold {
		held[h] = true
	}
	ans := g.Answers(c.V)
	feat := c12Describe(g, ans, c.V, held)
	o.Labels = append(o.Labels, feat.labels()...)
	text := c12Journal(c)
	dir, cleanup := knutio.Materialise(map[string]string{"j.knut": text})
	defer cleanup()
	r := knutio.Run(knutio.Opts{Dir: dir}, "balance", "-v", c.Coms[c.V], "--color=false", "--digits", "8", "j.knut")
	o.Evals = 1
	ctx := func() string {
		return fmt.Sprintf("knut balance -v %s --color=false --digits 8 j.knut\n%s\n%s", c.Coms[c.V], text, r.Brief())
	}
	if r.Panicked() || r.TimedOut || r.Signaled {
		o.Violation = V("cli-crash", "knut crashed or hung\n%s", ctx()).With("level", "cli")
		return o
	}
	mustFail := ""
	switch {
	case hasZero:
		mustFail = "zero-price"
	case feat.unconnected:
		mustFail = "unconnected"
	}
	if mustFail != "" {
		o.Labels = append(o.Labels, "must-fail:"+mustFail)
		// the failing case is non-trivial when something else in the journal could have been valued
		o.NonTrivial = feat.nonTrivial()
		switch {
		case r.Exit == 0:
			kind := "cli-accepted-unpriced"
			if hasZero {
				kind = "cli-accepted-zero-price"
			}
			o.Violation = V(kind, "knut must fail (%s) but exited 0\n%s", mustFail, ctx()).With("level", "cli")
		case strings.TrimSpace(r.Stderr) == "" || r.Stdout != "":
			o.Violation = V("cli-dirty-failure", "knut failed (%s) but stderr is empty or stdout is not\n%s", mustFail, ctx()).With("level", "cli")
		}
		return o
	}
	o.Labels = append(o.Labels, "must-succeed")
	o.NonTrivial = feat.nonTrivial()
	if r.Exit != 0 {
		o.Violation = V("cli-failed", "every held commodity has a price in %s but knut failed\n%s", c.Coms[c.V], ctx()).With("level", "cli")
		return o
	}
	cells, err := c12ReadTable(r.Stdout)
	if err != nil {
		o.Violation = V("cli-unreadable", "report not readable: %v\n%s", err, ctx()).With("level", "cli")
		return o
	}
	for _, h := range c.Hold {
		got, ok := cells[c.Coms[h]]
		if !ok {
			got = new(big.Rat) // an all-zero line may be left out
		}
		if v := c12Judge(c, &ans[h], got, true, "cli"); v != nil {
			v.Msg += "\n" + ctx()
			o.Violation = v
			return o
		}
	}
	for name := range cells {
		found := false
		for _, h := range c.Hold {
			found = found || c.Coms[h] == name
		}
		if !found {
			o.Violation = V("cli-unreadable", "unexpected row %s\n%s", name, ctx()).With("level", "cli")
			return o
		}
	}
	return o
}

// ---------------------------------------------------------------------------------------------------------------
// generator

var c12Names = []string{"V", "A", "B", "C", "D", "E", "F", "USD", "CHF", "AAPL", "X1", "Gold", "Ö", "口"}

func drawC12Price(t *rapid.T) string {
	switch k := rapid.IntRange(0, 24).Draw(t, "pk"); {
	case k == 24:
		return rapid.SampledFrom([]string{"0", "0.0", "0.00000000", "00"}).Draw(t, "zero")
	case k <= 5:
		return rapid.SampledFrom([]string{"2", "3", "4", "5", "7", "10", "0.5", "0.25", "0.1", "1", "1.5", "0.3", "0.7", "1.1", "0.9"}).Draw(t, "simple")
	case k == 6:
		// extremes of the stated range, and a price whose exact reciprocal lies 1.6e-19 below an 8-decimal boundary
		return rapid.SampledFrom([]string{"0.000001", "1000000", "0.00000001", "999999.99999999", "630.92676833", "0.33333333", "3.00000003"}).Draw(t, "extreme")
	case k <= 9:
		return gen.DrawPrice(t)
	case k == 10:
		// more decimals than the 8 kept per step (rates quoted to 10-12 places, prices below 1e-8)
		return rapid.SampledFrom([]string{"0.123456789", "0.000012345678", "1.000000001", "0.000000004", "123.4567891234", "0.999999999999"}).Draw(t, "fine")
	}
	dec := rapid.SampledFrom([]int{1, 2, 4, 6, 8, 8}).Draw(t, "dec")
	ip := rapid.SampledFrom([]int64{0, 0, 9, 99, 9999, 999999}).Draw(t, "imax")
	i := rapid.Int64Range(0, ip).Draw(t, "int")
	pow := int64(1)
	for j := 0; j < dec; j++ {
		pow *= 10
	}
	f := rapid.Int64Range(1, pow-1).Draw(t, "frac")
	return fmt.Sprintf("%d.%0*d", i, dec, f)
}

func drawC12(t *rapid.T, cli bool) C12Case {
	n := rapid.IntRange(2, 7).Draw(t, "n")
	c := C12Case{CLI: cli}
	if gen.Rare(t, "manyCommodities", 6) {
		// a price list of realistic size: most commodities quoted against the first one, some through another
		n = rapid.IntRange(66, 160).Draw(t, "nMany")
		for i := 0; i < n; i++ {
			c.Coms = append(c.Coms, fmt.Sprintf("L%03d", i))
		}
		c.V = rapid.SampledFrom([]int{0, 0, 0, 1, n - 1}).Draw(t, "vMany")
		for i := 1; i < n; i++ {
			parent := 0
			if rapid.IntRange(0, 3).Draw(t, "viaOther") == 0 {
				parent = rapid.IntRange(0, i-1).Draw(t, "parentMany")
			}
			d := c12Decl{C: i, T: parent, P: drawC12Price(t), Day: rapid.IntRange(0, 5).Draw(t, "day")}
			if rapid.IntRange(0, 2).Draw(t, "flip") == 0 {
				d.C, d.T = d.T, d.C
			}
			c.Decls = append(c.Decls, d)
		}
		if rapid.Bool().Draw(t, "shuffle") {
			c.Decls = rapid.Permutation(c.Decls).Draw(t, "fileOrder")
		}
		if c12ExcludeDirectOverridden {
			c.Decls = c12DropCyclesThroughV(c)
		}
		if !cli {
			c.Amt = gen.DrawQty(t, 8, true)
			return c
		}
		c.SameDay = rapid.Bool().Draw(t, "sameDay")
		g := ref.NewC12Graph(n)
		for _, d := range c.Decls {
			if !c12IsZero(d.P) {
				g.Declare(d.C, ref.R(d.P), d.T)
			}
		}
		for _, a := range g.Answers(c.V) {
			if a.Connected {
				c.Hold = append(c.Hold, a.C)
			}
		}
		return c
	}
	c.Coms = rapid.SliceOfNDistinct(rapid.SampledFrom(c12Names), n, n, rapid.ID[string]).Draw(t, "coms")
	c.V = rapid.IntRange(0, n-1).Draw(t, "v")
	// three quarters of the cases start from a forest (commodity i is declared against an earlier one, in either
	// direction, or stays apart); free declarations on top of it give redeclarations, flips, cycles and self pairs
	if rapid.IntRange(0, 3).Draw(t, "forest") != 0 {
		for i := 1; i < n; i++ {
			if rapid.IntRange(0, 7).Draw(t, "attach") == 0 {
				continue
			}
			d := c12Decl{C: i, T: rapid.IntRange(0, i-1).Draw(t, "parent"), P: drawC12Price(t), Day: rapid.IntRange(0, 5).Draw(t, "day")}
			if rapid.IntRange(0, 2).Draw(t, "flip") == 0 {
				d.C, d.T = d.T, d.C
			}
			c.Decls = append(c.Decls, d)
		}
	}
	decl := rapid.Custom(func(t *rapid.T) c12Decl {
		d := c12Decl{
			C:   rapid.IntRange(0, n-1).Draw(t, "c"),
			T:   rapid.IntRange(0, n-1).Draw(t, "t"),
			P:   drawC12Price(t),
			Day: rapid.IntRange(0, 5).Draw(t, "day"),
		}
		if d.C == d.T && rapid.IntRange(0, 7).Draw(t, "self") != 0 {
			d.T = (d.T + 1) % n
		}
		return d
	})
	maxFree := rapid.SampledFrom([]int{1, 3, 6}).Draw(t, "maxFree")
	c.Decls = append(c.Decls, rapid.SliceOfN(decl, 0, maxFree).Draw(t, "decls")...)
	if len(c.Decls) > 0 && rapid.IntRange(0, 2).Draw(t, "requote") == 0 {
		// the same pair quoted again later (same direction), alone on its day
		d := c.Decls[rapid.IntRange(0, len(c.Decls)-1).Draw(t, "requoteOf")]
		d.P, d.Day = drawC12Price(t), 5
		c.Decls = append(c.Decls, d)
	}
	if rapid.Bool().Draw(t, "shuffle") && len(c.Decls) > 1 {
		c.Decls = rapid.Permutation(c.Decls).Draw(t, "fileOrder")
	}
	if c12ExcludeDirectOverridden {
		c.Decls = c12DropCyclesThroughV(c)
	}
	if !cli {
		c.Amt = gen.DrawQty(t, 8, true)
		return c
	}
	c.SameDay = rapid.Bool().Draw(t, "sameDay")
	// hold one unit of every commodity; in half of the cases in which that must fail, hold only what has a price
	g := ref.NewC12Graph(n)
	zero := false
	for _, d := range c.Decls {
		if c12IsZero(d.P) {
			zero = true
		} else {
			g.Declare(d.C, ref.R(d.P), d.T)
		}
	}
	if zero && rapid.IntRange(0, 2).Draw(t, "dropZero") != 0 {
		var keep []c12Decl
		for _, d := range c.Decls {
			if !c12IsZero(d.P) {
				keep = append(keep, d)
			}
		}
		c.Decls = keep
	}
	holdMode := rapid.IntRange(0, 4).Draw(t, "onlyPriced")
	onlyPriced := holdMode != 0
	var loose []int
	for _, a := range g.Answers(c.V) {
		if a.Connected || !onlyPriced {
			c.Hold = append(c.Hold, a.C)
		} else {
			loose = append(loose, a.C)
		}
	}
	if holdMode == 4 && len(loose) > 0 {
		// everything that has a price plus exactly one commodity that has none: valuing must fail because of that one
		c.Hold = append(c.Hold, loose[rapid.IntRange(0, len(loose)-1).Draw(t, "oneLoose")])
	}
	return c
}

// c12DropCyclesThroughV removes, in order of effect, every declaration that would put V on a cycle of the pair graph.
func c12DropCyclesThroughV(c C12Case) []c12Decl {
	g := ref.NewC12Graph(len(c.Coms))
	drop := map[int]bool{}
	for _, i := range c12Order(c.Decls) {
		d := c.Decls[i]
		if c12IsZero(d.P) || d.C == d.T || g.Has(d.C, d.T) {
			if !c12IsZero(d.P) {
				g.Declare(d.C, ref.R(d.P), d.T)
			}
			continue
		}
		g.Declare(d.C, ref.R(d.P), d.T)
		if g.OnCycle(c.V) {
			delete(g.Latest, [2]int{min(d.C, d.T), max(d.C, d.T)})
			drop[i] = true
			stats.Get("C12").Excluded("direct-pair-overridden")
		}
	}
	var keep []c12Decl
	for i, d := range c.Decls {
		if !drop[i] {
			keep = append(keep, d)
		}
	}
	return keep
}

func TestC12(t *testing.T) {
	runProp(t, "C12", "prices", func(t *rapid.T) C12Case { return drawC12(t, false) }, checkC12)
}

func TestC12CLI(t *testing.T) {
	runProp(t, "C12", "prices", func(t *rapid.T) C12Case { return drawC12(t, true) }, checkC12)
}
