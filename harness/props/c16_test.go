//go:build !no_c16

package props

import (
	"fmt"
	"math/big"
	"regexp"
	"sort"
	"strings"
	"testing"

	"pgregory.net/rapid"

	"verifharness/gen"
	"verifharness/knutio"
	"verifharness/ref"
	"verifharness/stats"
)

// C16 — transcode emits a balanced, self-consistent beancount ledger.

type C16Case struct {
	Directives []ref.Directive `json:"directives"`
	Text       string          `json:"text"`
	V          string          `json:"v"`
}

func init() {
	Register("C16", "beancount", checkC16)
	RegisterShrinker("C16", "beancount", func(c C16Case) []C16Case {
		var out []C16Case
		for _, ds := range shrinkDirectives(c.Directives) {
			out = append(out, C16Case{Directives: ds, Text: ref.RenderAll(ds), V: c.V})
		}
		return out
	})
}

// c16OpenMirrors: while the known finding KF-C16-1 is open (transcode never opens the Income:<path>
// valuation accounts it posts adjustments to), half of the generated journals open every mirror
// account themselves on the first day, so that the open-before-use clause is searched strictly
// behind the finding; those cases are counted as excluded_known "unopened-valuation-account".
var c16OpenMirrors = true

var c16NonAlpha = regexp.MustCompile("[^a-zA-Z]")

type c16Trx struct {
	date ref.Day
	legs []string // sorted "account amount"
	accs string
	amts []*big.Rat
}

func c16Key(date ref.Day, legs map[string]*big.Rat, order []string) c16Trx {
	t := c16Trx{date: date}
	sort.Strings(order)
	for _, a := range order {
		t.amts = append(t.amts, legs[a])
	}
	t.accs = date.String() + " " + strings.Join(order, ",")
	return t
}

func checkC16(c C16Case) (o Outcome) {
	dir, cleanup := knutio.Materialise(map[string]string{"j.knut": c.Text})
	defer cleanup()
	r := knutio.Run(knutio.Opts{Dir: dir}, "transcode", "-v", c.V, "j.knut")
	o.Evals = 1
	if r.TimedOut || r.Signaled || r.Panicked() {
		o.Violation = V("crash", "knut transcode: %s\n--journal--\n%s", r.Brief(), clip(c.Text, 2000))
		return o
	}
	entries, miss := ref.ValueJournal(c.Directives, c.V)
	if miss != nil {
		o.Labels = append(o.Labels, "missing-price")
		return o // C03 decides missing prices
	}
	if r.Exit != 0 {
		o.Labels = append(o.Labels, "knut-rejected")
		return o
	}
	cur, ents, err := knutio.ParseBeancount(r.Stdout)
	if err != nil {
		o.Violation = V("unreadable", "beancount output not readable: %v\n%s", err, clip(r.Stdout, 2000))
		return o
	}
	// The statement does not cover the option line; postings must all be in one commodity, V as transcode
	// spells it (it replaces characters beancount does not accept).
	wantCur := c16NonAlpha.ReplaceAllString(c.V, "X")
	_ = cur
	// mirrors of A/L accounts
	mirror := map[string]bool{}
	for _, d := range c.Directives {
		for _, b := range d.Bookings {
			for _, a := range []string{b.Credit, b.Debit} {
				if ref.IsAL(a) {
					mirror[ref.ValuationAccount(a)] = true
				}
			}
		}
		if d.Accrual != nil && ref.IsAL(d.Accrual.Account) {
			mirror[ref.ValuationAccount(d.Accrual.Account)] = true
		}
	}
	open := map[string]bool{}
	assumed := map[string]bool{} // valuation accounts tolerated under the known finding, until the journal opens them
	var prev ref.Day
	nAdj, nUser := 0, 0
	var got []c16Trx
	for i, e := range ents {
		if i > 0 && e.Date < prev {
			o.Violation = V("not-chronological", "entry at line %d dated %s follows an entry dated %s\n%s", e.Line, e.Date, prev, clip(r.Stdout, 2500))
			return o
		}
		prev = e.Date
		switch e.Kind {
		case "open":
			if open[e.Account] {
				o.Violation = V("double-open", "account %s opened twice (line %d)", e.Account, e.Line)
				return o
			}
			open[e.Account] = true
			delete(assumed, e.Account)
		case "close":
			if !open[e.Account] {
				o.Violation = V("close-unopened", "account %s closed but not open (line %d)", e.Account, e.Line)
				return o
			}
			delete(open, e.Account)
		case "trx":
			sum := new(big.Rat)
			legs := map[string]*big.Rat{}
			var order []string
			adj := strings.HasPrefix(e.Desc, "Adjust value of ")
			if adj {
				nAdj++
			} else {
				nUser++
			}
			for _, p := range e.Postings {
				if p.Commodity != wantCur {
					o.Violation = V("posting-currency", "posting in %q, expected %q (line %d)", p.Commodity, wantCur, e.Line)
					return o
				}
				sum.Add(sum, p.Amount)
				if !open[p.Account] && !assumed[p.Account] {
					kind := "account-not-open"
					if adj && mirror[p.Account] {
						kind = "unopened-valuation-account"
					}
					o.Violation = V(kind, "transaction at line %d (%s %q) posts to %s, which is not open at that point\n%s\n--journal--\n%s", e.Line, e.Date, e.Desc, p.Account, clip(r.Stdout, 2500), clip(c.Text, 2500)).
						With("account_type", ref.AccountType(p.Account))
					if kind == "unopened-valuation-account" {
						// known finding: record it and keep checking the other clauses
						if _, ok := MatchKnown("C16", o.Violation); ok {
							stats.Get("C16").Known("KF-C16-1")
							o.Violation = nil
							assumed[p.Account] = true
						} else {
							return o
						}
					} else {
						return o
					}
				}
				if legs[p.Account] == nil {
					legs[p.Account] = new(big.Rat)
					order = append(order, p.Account)
				}
				legs[p.Account].Add(legs[p.Account], p.Amount)
			}
			if sum.Sign() != 0 {
				o.Violation = V("unbalanced", "transaction at line %d (%s %q) sums to %s %s\n%s", e.Line, e.Date, e.Desc, ref.DecString(sum), wantCur, clip(r.Stdout, 2500))
				return o
			}
			got = append(got, c16Key(e.Date, legs, order))
		}
	}
	// expected transactions: entries grouped by source transaction
	var want []c16Trx
	{
		type grp struct {
			date  ref.Day
			legs  map[string]*big.Rat
			order []string
		}
		var cur *grp
		flush := func() {
			if cur != nil {
				want = append(want, c16Key(cur.date, cur.legs, cur.order))
			}
			cur = nil
		}
		lastKey := ""
		for i, e := range entries {
			// entries come in pairs (credit, debit) per posting; group consecutive entries of one transaction
			key := fmt.Sprint(e.Trx)
			_ = i
			if key != lastKey {
				flush()
				cur = &grp{date: e.Date, legs: map[string]*big.Rat{}}
				lastKey = key
			}
			if cur.legs[e.Account] == nil {
				cur.legs[e.Account] = new(big.Rat)
				cur.order = append(cur.order, e.Account)
			}
			cur.legs[e.Account].Add(cur.legs[e.Account], e.Value)
		}
		flush()
	}
	if v := c16Compare(got, want); v != nil {
		v.Msg += "\n" + clip(r.Stdout, 3000) + "\n--journal--\n" + clip(c.Text, 2500)
		o.Violation = v
		return o
	}
	o.NonTrivial = nUser >= 2 && nAdj >= 1
	o.Labels = append(o.Labels, fmt.Sprintf("adjustments:%v", nAdj > 0))
	return o
}

var c16Tol = big.NewRat(2, 100000000)

// c16Compare matches transactions by (date, account set) and amounts within 2e-8.
func c16Compare(got, want []c16Trx) *Violation {
	group := func(ts []c16Trx) map[string][]c16Trx {
		m := map[string][]c16Trx{}
		for _, t := range ts {
			m[t.accs] = append(m[t.accs], t)
		}
		return m
	}
	g, w := group(got), group(want)
	keys := map[string]bool{}
	for k := range g {
		keys[k] = true
	}
	for k := range w {
		keys[k] = true
	}
	for _, k := range sortedKeys(keys) {
		if len(g[k]) != len(w[k]) {
			return V("transaction-set", "%d transactions on %s in the output, %d expected (user bookings plus daily value adjustments)", len(g[k]), k, len(w[k]))
		}
		less := func(ts []c16Trx) func(i, j int) bool {
			return func(i, j int) bool {
				for x := range ts[i].amts {
					if c := ts[i].amts[x].Cmp(ts[j].amts[x]); c != 0 {
						return c < 0
					}
				}
				return false
			}
		}
		sort.SliceStable(g[k], less(g[k]))
		sort.SliceStable(w[k], less(w[k]))
		for i := range g[k] {
			for x := range g[k][i].amts {
				if ref.Abs(ref.Sub(g[k][i].amts[x], w[k][i].amts[x])).Cmp(c16Tol) > 0 {
					return V("transaction-amount", "transaction on %s: amounts %v, expected %v", k, ratStrings(g[k][i].amts), ratStrings(w[k][i].amts))
				}
			}
		}
	}
	return nil
}

func ratStrings(rs []*big.Rat) []string {
	var s []string
	for _, r := range rs {
		s = append(s, ref.DecString(r))
	}
	return s
}

func drawC16(t *rapid.T) C16Case {
	cfg := gen.HistCfg{
		MaxActions: rapid.SampledFrom([]int{8, 15, 30, 45}).Draw(t, "maxActions"),
		Accruals:   rapid.IntRange(0, 2).Draw(t, "accruals") == 0,
		Assertions: rapid.Bool().Draw(t, "assertions"), Closes: true, Perf: rapid.Bool().Draw(t, "perf"),
		Prices:    1,
		MaxDec:    rapid.SampledFrom([]int{2, 4, 8, 12}).Draw(t, "maxDec"),
		WideDates: true,
	}
	gen.MaybeLarge(t, &cfg, 4)
	j := gen.GenJournal(t, cfg)
	if c16OpenMirrors && rapid.Bool().Draw(t, "openMirrors") {
		// open every valuation mirror account on the first day (unless the journal handles it itself)
		lo, _, ok := gen.DatesOf(j)
		if ok {
			used := map[string]bool{}
			for _, a := range j.Accounts {
				used[a] = true
			}
			var extra []ref.Directive
			seen := map[string]bool{}
			for _, a := range j.Accounts {
				m := ref.ValuationAccount(a)
				if ref.IsAL(a) && !used[m] && !seen[m] {
					seen[m] = true
					extra = append(extra, ref.Directive{Kind: ref.KOpen, Date: lo, Account: m})
				}
			}
			j.Directives = append(extra, j.Directives...)
			stats.Get("C16").Excluded("unopened-valuation-account")
		}
	}
	if rapid.IntRange(0, 3).Draw(t, "shuffle") == 0 {
		j.Directives = gen.Shuffle(t, j.Directives)
	}
	return C16Case{Directives: j.Directives, Text: ref.RenderAll(j.Directives), V: rapid.SampledFrom(j.Commodities).Draw(t, "valuation")}
}

func TestC16(t *testing.T) {
	runProp(t, "C16", "beancount", drawC16, checkC16)
}
