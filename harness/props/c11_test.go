//go:build !no_c11

package props

import (
	"fmt"
	"os"
	"strconv"
	"strings"
	"testing"
	"time"

	"github.com/sboehler/knut/lib/common/date"
	"pgregory.net/rapid"

	"verifharness/knutio"
	"verifharness/ref"
	"verifharness/stats"
)

// C11 — reporting periods partition the requested window.

type C11Case struct {
	Start    ref.Day `json:"start"`
	End      ref.Day `json:"end"`
	Interval int     `json:"interval"`
	Last     int     `json:"last"`
	Show     string  `json:"show,omitempty"`
}

func init() {
	Register("C11", "partition", checkC11)
	Register("C11", "cli-headers", checkC11CLI)
}

func toTime(d ref.Day) time.Time {
	y, m, dd := d.Civil()
	return time.Date(y, time.Month(m), dd, 0, 0, 0, 0, time.UTC)
}

func fromTime(t time.Time) ref.Day {
	return ref.FromCivil(t.Year(), int(t.Month()), t.Day())
}

// partitionInvariants checks the statement directly on a list of periods
// (independently of ref.Partition): consecutive, disjoint, covering
// [start,end] (or a suffix of it when last > 0), never straddling a unit
// boundary, adjacent periods in different units.
func partitionInvariants(ps []ref.Period, start, end ref.Day, iv ref.Interval, last int) *Violation {
	if iv == ref.Once {
		if len(ps) != 1 || ps[0].Start != start || ps[0].End != end {
			return V("once", "interval once must give the window itself, got %v", ps)
		}
		return nil
	}
	if start > end {
		if len(ps) != 0 {
			return V("inverted-window", "start > end must give no periods, got %d", len(ps))
		}
		return nil
	}
	if len(ps) == 0 {
		return V("empty", "non-empty window gave no periods")
	}
	if ps[len(ps)-1].End != end {
		return V("cover-end", "last period ends %s, window ends %s", ps[len(ps)-1].End, end)
	}
	for i, p := range ps {
		if p.Start > p.End {
			return V("period-inverted", "period %d is [%s,%s]", i, p.Start, p.End)
		}
		if ref.UnitStart(p.Start, iv) != ref.UnitStart(p.End, iv) {
			return V("straddle", "period %d [%s,%s] straddles a %s boundary", i, p.Start, p.End, iv)
		}
		if i > 0 {
			if ps[i-1].End+1 != p.Start {
				return V("not-consecutive", "period %d ends %s, period %d starts %s", i-1, ps[i-1].End, i, p.Start)
			}
			if ref.UnitStart(ps[i-1].End, iv) == ref.UnitStart(p.Start, iv) {
				return V("split-needlessly", "periods %d and %d lie in the same %s unit", i-1, i, iv)
			}
		}
	}
	// count: all units of the window, or exactly the last n
	total := 0
	for d := end; d >= start; d = ref.UnitStart(d, iv) - 1 {
		total++
	}
	want := total
	if last > 0 && last < total {
		want = last
	}
	if len(ps) != want {
		return V("count", "got %d periods, want %d (window has %d units, last=%d)", len(ps), want, total, last)
	}
	if want == total && ps[0].Start != start {
		return V("cover-start", "first period starts %s, window starts %s", ps[0].Start, start)
	}
	return nil
}

func checkC11(c C11Case) (o Outcome) {
	iv := ref.Interval(c.Interval)
	o.Labels = []string{"iv:" + iv.String(), fmt.Sprintf("last:%d", min(c.Last, 3))}
	defer func() {
		if p := recover(); p != nil {
			o.Violation = V("panic", "date.Partition method panicked: %v", p)
		}
	}()
	var part date.Partition
	if p := Guard("C11", "partition", c, 20*time.Second, func() {
		part = date.NewPartition(date.Period{Start: toTime(c.Start), End: toTime(c.End)}, date.Interval(c.Interval), c.Last)
	}); p != nil {
		o.Violation = V("panic", "date.NewPartition panicked: %v", p)
		return o
	}
	starts, ends := part.StartDates(), part.EndDates()
	if len(starts) != len(ends) || part.Size() != len(ends) {
		o.Violation = V("size", "StartDates %d, EndDates %d, Size %d", len(starts), len(ends), part.Size())
		return o
	}
	var ps []ref.Period
	for i := range starts {
		ps = append(ps, ref.Period{Start: fromTime(starts[i]), End: fromTime(ends[i])})
		if !toTime(ps[i].Start).Equal(starts[i]) || !toTime(ps[i].End).Equal(ends[i]) {
			o.Violation = V("not-midnight", "period %d has a time-of-day component: %v %v", i, starts[i], ends[i])
			return o
		}
	}
	if v := partitionInvariants(ps, c.Start, c.End, iv, c.Last); v != nil {
		o.Violation = v
		return o
	}
	// agreement with the reference calendar
	want := ref.Partition(c.Start, c.End, iv, c.Last)
	if len(want) != len(ps) {
		o.Violation = V("ref-mismatch", "knut %d periods, reference %d", len(ps), len(want))
		return o
	}
	for i := range want {
		if want[i] != ps[i] {
			o.Violation = V("ref-mismatch", "period %d: knut [%s,%s], reference [%s,%s]", i, ps[i].Start, ps[i].End, want[i].Start, want[i].End)
			return o
		}
	}
	// attribution of dates
	align := part.Align()
	lo, hi := c.Start-40, c.End+40
	if c.End < c.Start {
		lo, hi = c.End-40, c.Start+40
	}
	if hi-lo > 1500 {
		// long windows: probe around every boundary instead of every day
		var probes []ref.Day
		for _, p := range ps {
			probes = append(probes, p.Start-1, p.Start, p.Start+1, p.End-1, p.End, p.End+1)
		}
		probes = append(probes, lo, hi, c.Start-1, c.End+1)
		for _, d := range probes {
			if v := alignOne(ps, align, d, c, iv); v != nil {
				o.Violation = v
				return o
			}
		}
	} else {
		for d := lo; d <= hi; d++ {
			if v := alignOne(ps, align, d, c, iv); v != nil {
				o.Violation = v
				return o
			}
		}
	}
	// non-trivial: crosses a unit boundary with a clipped first or last period, contains Feb 29, or inverted
	if c.Start > c.End {
		o.NonTrivial = true
		o.Labels = append(o.Labels, "inverted")
	} else if iv != ref.Once && len(ps) >= 2 {
		clippedFirst := ps[0].Start != ref.UnitStart(ps[0].Start, iv)
		clippedLast := ps[len(ps)-1].End != ref.UnitEnd(ps[len(ps)-1].End, iv)
		if clippedFirst || clippedLast {
			o.NonTrivial = true
			o.Labels = append(o.Labels, "clipped")
		}
	}
	for y := yearOf(c.Start); y <= yearOf(c.End) && y <= yearOf(c.Start)+400; y++ {
		if ref.IsLeap(y) {
			f := ref.FromCivil(y, 2, 29)
			if f >= c.Start && f <= c.End {
				o.NonTrivial = true
				o.Labels = append(o.Labels, "feb29")
				break
			}
		}
	}
	return o
}

func yearOf(d ref.Day) int { y, _, _ := d.Civil(); return y }

func alignOne(ps []ref.Period, align func(time.Time) time.Time, d ref.Day, c C11Case, iv ref.Interval) *Violation {
	got := align(toTime(d))
	if iv == ref.Once && c.Start > c.End {
		return nil // an inverted single window attributes nothing meaningful; not covered by the statement
	}
	idx, ok := ref.Column(ps, d)
	if !ok {
		if !got.IsZero() {
			return V("align", "date %s after the window is attributed to %s", d, got.Format("2006-01-02"))
		}
		return nil
	}
	if got.IsZero() || fromTime(got) != ps[idx].End {
		return V("align", "date %s attributed to %v, want %s (period %d)", d, got.Format("2006-01-02"), ps[idx].End, idx)
	}
	return nil
}

func drawDay(t *rapid.T, label string) ref.Day {
	switch rapid.IntRange(0, 9).Draw(t, label+"Kind") {
	case 0: // wide
		y := rapid.IntRange(1900, 2100).Draw(t, label+"Y")
		m := rapid.IntRange(1, 12).Draw(t, label+"M")
		return ref.FromCivil(y, m, rapid.IntRange(1, ref.DaysIn(y, m)).Draw(t, label+"D"))
	case 1, 2: // month ends
		y := rapid.IntRange(2015, 2025).Draw(t, label+"Y")
		m := rapid.IntRange(1, 12).Draw(t, label+"M")
		e := ref.FromCivil(y, m, ref.DaysIn(y, m))
		return e + ref.Day(rapid.IntRange(-1, 1).Draw(t, label+"Off"))
	case 3: // around leap day
		y := rapid.SampledFrom([]int{2016, 2020, 2024, 2000, 1900, 2100, 2019, 2021}).Draw(t, label+"Y")
		return ref.FromCivil(y, 2, 28) + ref.Day(rapid.IntRange(-1, 2).Draw(t, label+"Off"))
	case 4: // week boundaries
		base := ref.FromCivil(2020, 1, 6) // a Monday
		return base + ref.Day(7*rapid.IntRange(-60, 60).Draw(t, label+"W")+rapid.IntRange(-1, 1).Draw(t, label+"Off"))
	case 5: // year/quarter ends
		y := rapid.IntRange(2017, 2023).Draw(t, label+"Y")
		m := rapid.SampledFrom([]int{3, 6, 9, 12}).Draw(t, label+"M")
		return ref.FromCivil(y, m, ref.DaysIn(y, m)) + ref.Day(rapid.IntRange(-1, 1).Draw(t, label+"Off"))
	}
	return ref.FromCivil(2019, 1, 1) + ref.Day(rapid.IntRange(0, 1500).Draw(t, label+"N"))
}

func drawC11(t *rapid.T) C11Case {
	s := drawDay(t, "start")
	var e ref.Day
	switch rapid.IntRange(0, 5).Draw(t, "endKind") {
	case 0:
		e = drawDay(t, "end")
	case 1:
		e = s - ref.Day(rapid.IntRange(0, 40).Draw(t, "neg"))
	default:
		e = s + ref.Day(rapid.SampledFrom([]int{0, 1, 6, 7, 27, 28, 29, 30, 31, 59, 89, 90, 91, 92, 180, 364, 365, 366, 400, 800, 3000}).Draw(t, "len")+rapid.IntRange(0, 3).Draw(t, "lenOff"))
	}
	iv := rapid.IntRange(0, 5).Draw(t, "interval")
	if iv == int(ref.Daily) && e-s > 5000 {
		e = s + 5000
	}
	last := rapid.SampledFrom([]int{0, 0, 0, 1, 2, 3, 5, 12, 100, 100000}).Draw(t, "last")
	return C11Case{Start: s, End: e, Interval: iv, Last: last, Show: fmt.Sprintf("%s..%s %s last=%d", s, e, ref.Interval(iv), last)}
}

func TestC11(t *testing.T) {
	runProp(t, "C11", "partition", drawC11, checkC11)
}

// TestSweepC11 is the bounded exhaustive sweep of the thorough tier: every
// start in 2019-12-20 … 2021-03-10 × every length −3 … 430 × 6 intervals ×
// last ∈ {0,1,2,5}; sharded by start day.
func TestSweepC11(t *testing.T) {
	if os.Getenv("VERIF_SWEEP") == "" {
		t.Skip("VERIF_SWEEP not set")
	}
	shard, _ := strconv.Atoi(os.Getenv("VERIF_SHARD"))
	shards, _ := strconv.Atoi(os.Getenv("VERIF_SHARDS"))
	if shards == 0 {
		shards = 1
	}
	lo, hi := ref.FromCivil(2019, 12, 20), ref.FromCivil(2021, 3, 10)
	rec := stats.Get("C11")
	n := 0
	for s := lo; s <= hi; s++ {
		if int(s-lo)%shards != shard {
			continue
		}
		for l := -3; l <= 430; l++ {
			for iv := 0; iv < 6; iv++ {
				for _, last := range []int{0, 1, 2, 5} {
					c := C11Case{Start: s, End: s + ref.Day(l), Interval: iv, Last: last}
					o := checkC11(c)
					n++
					if o.NonTrivial {
						Record("C11", c, o)
					} else {
						rec.Eval(1)
					}
					if o.Violation != nil {
						Report(t, "C11", "partition", c, o.Violation)
					}
				}
			}
		}
	}
	rec.Label("sweep-complete")
	fmt.Printf("sweep shard %d/%d: %d partitions\n", shard, shards, n)
}

// ---- CLI level: column headers of `knut balance` equal the reference partition.

type C11CLICase struct {
	First    ref.Day  `json:"first"` // first transaction date
	Lastd    ref.Day  `json:"lastd"` // last transaction date
	From     *ref.Day `json:"from,omitempty"`
	To       *ref.Day `json:"to,omitempty"`
	Interval int      `json:"interval"`
	Last     int      `json:"last"`
}

func checkC11CLI(c C11CLICase) (o Outcome) {
	journal := fmt.Sprintf("%s open Assets:A\n%s open Equity:E\n%s \"a\"\nEquity:E Assets:A 1 CHF\n\n%s \"b\"\nEquity:E Assets:A 2 CHF\n\n",
		c.First, c.First, c.First, c.Lastd)
	dir, cleanup := knutio.Materialise(map[string]string{"j.knut": journal})
	defer cleanup()
	args := []string{"balance", "--color=false"}
	iv := ref.Interval(c.Interval)
	if f := ref.IntervalFlags[iv]; f != "" {
		args = append(args, f)
	}
	if c.From != nil {
		args = append(args, "--from", c.From.String())
	}
	if c.To != nil {
		args = append(args, "--to", c.To.String())
	}
	if c.Last != 0 {
		args = append(args, "--last", strconv.Itoa(c.Last))
	}
	args = append(args, "j.knut")
	r := knutio.Run(knutio.Opts{Dir: dir}, args...)
	o.Evals = 1
	o.Labels = []string{"iv:" + iv.String()}
	if !r.OK() {
		o.Violation = V("cli-failed", "knut %v failed: %s", args, r.Brief())
		return o
	}
	// window = [max(from, first), min(to, last)]
	start, end := c.First, c.Lastd
	if c.From != nil && *c.From > start {
		start = *c.From
	}
	if c.To != nil && *c.To < end {
		end = *c.To
	}
	want := ref.Partition(start, end, iv, c.Last)
	var header string
	for _, l := range strings.Split(r.Stdout, "\n") {
		if strings.Contains(l, "Account") {
			header = l
			break
		}
	}
	cells := strings.Split(header, "|")
	var got []string
	for _, cell := range cells {
		cell = strings.TrimSpace(cell)
		if len(cell) == 10 && cell[4] == '-' {
			got = append(got, cell)
		}
	}
	var wantS []string
	for _, p := range want {
		wantS = append(wantS, p.End.String())
	}
	if strings.Join(got, ",") != strings.Join(wantS, ",") {
		o.Violation = V("cli-headers", "knut %v\nheaders  %v\nexpected %v", args, got, wantS)
	}
	o.NonTrivial = len(want) >= 2 && (c.From != nil || c.To != nil || c.Last > 0)
	return o
}

func drawC11CLI(t *rapid.T) C11CLICase {
	first := drawDay(t, "first")
	if y := yearOf(first); y < 1950 {
		first = ref.FromCivil(1950, 1, 1) + (first - ref.FromCivil(y, 1, 1))
	}
	c := C11CLICase{First: first}
	c.Lastd = first + ref.Day(rapid.SampledFrom([]int{0, 1, 20, 45, 100, 200, 400, 800}).Draw(t, "span")+rapid.IntRange(0, 5).Draw(t, "spanOff"))
	if rapid.Bool().Draw(t, "hasFrom") {
		d := first + ref.Day(rapid.IntRange(-50, 450).Draw(t, "fromOff"))
		c.From = &d
	}
	if rapid.Bool().Draw(t, "hasTo") {
		d := first + ref.Day(rapid.IntRange(-50, 900).Draw(t, "toOff"))
		c.To = &d
	}
	if c.To == nil && c.Lastd > ref.FromCivil(2024, 12, 31) {
		// the default --to is the wall-clock date; keep the clock out of the case
		d := c.Lastd + ref.Day(rapid.IntRange(0, 30).Draw(t, "toFuture"))
		c.To = &d
	}
	c.Interval = rapid.IntRange(0, 5).Draw(t, "interval")
	if c.Interval == int(ref.Daily) && c.Lastd-c.First > 120 {
		c.Interval = int(ref.Weekly)
	}
	c.Last = rapid.SampledFrom([]int{0, 0, 1, 2, 3, 7, 1000}).Draw(t, "last")
	return c
}

func TestC11CLI(t *testing.T) {
	runProp(t, "C11", "cli-headers", drawC11CLI, checkC11CLI)
}
